------------------------------ MODULE ExactNum ------------------------------
(***************************************************************************)
(* Exact carriers shared by every layer of the ODL specification.          *)
(*                                                                         *)
(*   Q   == <<n, d>>   rational, d > 0, gcd(|n|, d) = 1                    *)
(*   C   == <<re, im>> Gaussian rational, re, im \in Q                     *)
(*                                                                         *)
(* Tokens with denominator 0:  Inf = <<1,0>>, NegInf = <<-1,0>>,           *)
(* NaN = <<0,0>> (garbage pre-fill / indicator values only).               *)
(* TLC raises an error on 32-bit overflow, so an overflow can only become  *)
(* a machinery failure, never a wrong verdict.                             *)
(***************************************************************************)
EXTENDS Integers, Sequences, FiniteSets

Abs(a) == IF a < 0 THEN -a ELSE a
Max2(a, b) == IF a >= b THEN a ELSE b
Min2(a, b) == IF a <= b THEN a ELSE b

RECURSIVE Gcd(_, _)
Gcd(a, b) == IF b = 0 THEN a ELSE Gcd(b, a % b)

QNorm(n, d) ==
  IF d = 0 THEN <<(IF n > 0 THEN 1 ELSE IF n < 0 THEN -1 ELSE 0), 0>>
  ELSE LET g == Gcd(Abs(n), Abs(d))
           s == IF d < 0 THEN -1 ELSE 1
       IN  <<s * (n \div g), s * (d \div g)>>

Q(n, d)   == QNorm(n, d)
QI(n)     == <<n, 1>>
QZero     == <<0, 1>>
QOne      == <<1, 1>>
Inf       == <<1, 0>>
NegInf    == <<-1, 0>>
NaN       == <<0, 0>>
IsFinite(p) == p[2] # 0
IsQ(p)    == /\ p \in Int \X Int /\ p[2] > 0 /\ Gcd(Abs(p[1]), p[2]) = 1

QAdd(p, q) == IF p[2] = q[2] /\ p[2] = 1 THEN <<p[1] + q[1], 1>>
              ELSE QNorm(p[1] * q[2] + q[1] * p[2], p[2] * q[2])
QNeg(p)    == <<-p[1], p[2]>>
QSub(p, q) == QAdd(p, QNeg(q))
QMul(p, q) == IF p[2] = 1 /\ q[2] = 1 THEN <<p[1] * q[1], 1>>
              ELSE QNorm(p[1] * q[1], p[2] * q[2])
QInv(p)    == QNorm(p[2], p[1])          \* p # 0
QDiv(p, q) == QNorm(p[1] * q[2], p[2] * q[1])
QEq(p, q)  == p = q                       \* normal forms are unique
QLe(p, q)  == p[1] * q[2] <= q[1] * p[2]
QLt(p, q)  == p[1] * q[2] <  q[1] * p[2]
QAbs(p)    == <<Abs(p[1]), p[2]>>
QMax(p, q) == IF QLe(p, q) THEN q ELSE p
QMin(p, q) == IF QLe(p, q) THEN p ELSE q
QSign(p)   == IF p[1] > 0 THEN <<1, 1>> ELSE IF p[1] < 0 THEN <<-1, 1>> ELSE <<0, 1>>
QIsZero(p) == p[1] = 0 /\ p[2] # 0
QHalf(p)   == QMul(p, <<1, 2>>)
QSq(p)     == QMul(p, p)
\* floor(n/d) for d > 0 (TLC's \div rounds toward -infinity already)
QFloor(p)  == p[1] \div p[2]

RECURSIVE QPowN(_, _)
QPowN(p, k) == IF k = 0 THEN QOne ELSE QMul(p, QPowN(p, k - 1))

\* integer square root test: IsSquare(n) and ISqrt(n) for small n >= 0
RECURSIVE ISqrtFrom(_, _)
ISqrtFrom(n, r) == IF r * r > n THEN r - 1 ELSE ISqrtFrom(n, r + 1)
ISqrt(n)    == ISqrtFrom(n, 0)
IsSquare(n) == n >= 0 /\ ISqrt(n) * ISqrt(n) = n
QIsSquare(p) == IsSquare(p[1]) /\ IsSquare(p[2])
QSqrt(p)     == <<ISqrt(p[1]), ISqrt(p[2])>>      \* only if QIsSquare(p)

(* ------------------------- sequences of Q ------------------------------ *)
RECURSIVE QSumSeq(_)
QSumSeq(s) == IF s = <<>> THEN QZero ELSE QAdd(Head(s), QSumSeq(Tail(s)))
RECURSIVE QMaxSeq(_)
QMaxSeq(s) == IF Len(s) = 1 THEN s[1] ELSE QMax(Head(s), QMaxSeq(Tail(s)))
RECURSIVE QMinSeq(_)
QMinSeq(s) == IF Len(s) = 1 THEN s[1] ELSE QMin(Head(s), QMinSeq(Tail(s)))

(* ------------------------- Gaussian rationals -------------------------- *)
CZero      == <<QZero, QZero>>
COne       == <<QOne, QZero>>
CI         == <<QZero, QOne>>
CR(q)      == <<q, QZero>>
CInt(n)    == <<QI(n), QZero>>
Re(z)      == z[1]
Im(z)      == z[2]
IsRealC(z) == z[2] = QZero
CAdd(z, w) == <<QAdd(z[1], w[1]), QAdd(z[2], w[2])>>
CNeg(z)    == <<QNeg(z[1]), QNeg(z[2])>>
CSub(z, w) == CAdd(z, CNeg(w))
CMul(z, w) == IF z[2] = QZero /\ w[2] = QZero THEN <<QMul(z[1], w[1]), QZero>>
              ELSE <<QSub(QMul(z[1], w[1]), QMul(z[2], w[2])),
                     QAdd(QMul(z[1], w[2]), QMul(z[2], w[1]))>>
CConj(z)   == <<z[1], QNeg(z[2])>>
CAbs2(z)   == QAdd(QSq(z[1]), QSq(z[2]))
CScal(q, z) == <<QMul(q, z[1]), QMul(q, z[2])>>
CInv(z)    == CScal(QInv(CAbs2(z)), CConj(z))
CDiv(z, w) == CMul(z, CInv(w))
CIsZero(z) == z = CZero
CNaN       == <<NaN, NaN>>
RECURSIVE CPowN(_, _)
CPowN(z, k) == IF k = 0 THEN COne ELSE CMul(z, CPowN(z, k - 1))
RECURSIVE CSumSeq(_)
CSumSeq(s) == IF s = <<>> THEN CZero ELSE CAdd(Head(s), CSumSeq(Tail(s)))
=============================================================================

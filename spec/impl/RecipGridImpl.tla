---------------------------- MODULE RecipGridImpl ----------------------------
(***************************************************************************)
(* Layer C for C18: implementation-shaped model of                          *)
(*   odl/trafos/util/ft_utils.py : reciprocal_grid  (rmin / rmax / rshape   *)
(*       case analysis by shift, parity and half-complex),                  *)
(*       realspace_grid, dft_preprocess_data (phase vector),                *)
(*       dft_postprocess_data (phase vector and its OWN fmin / fmax case    *)
(*       analysis for the interpolation-kernel frequencies),                *)
(*   odl/trafos/fourier.py : the range-shape rule of                        *)
(*       DiscreteFourierTransformBase.__init__ and the forward / backward   *)
(*       direction choice.                                                  *)
(* One axis at a time (the code is separable: fast_1d_tensor_mult), in      *)
(* exact rationals.  Frequencies are in units of pi/stride as in the code,  *)
(* phases are "turns" (fractions of 2 pi) reduced mod 1.                    *)
(*                                                                         *)
(* Refinement statements (TLC, every n, shift, halved, sign, x0, k, j):     *)
(*   GridRefines    grid point k      = 2 * RecipPt(n, shift, k)            *)
(*   FreqRefines    kernel frequency k = RecipPt(n, shift, k)               *)
(*   PhaseRefines   pre[j] + dft[k,j] + post[k] = sign (x0/s + j) RecipPt   *)
(*   ShapeRefines   range shape = RanShape  (known deviating cell excluded) *)
(***************************************************************************)
EXTENDS DFTSem

Frac(q) == QSub(q, QI(QFloor(q)))           \* q mod 1

(* ---------------- reciprocal_grid, one axis, units of pi/stride --------- *)
RG_rshape(n, halved) == IF halved THEN (n \div 2) + 1 ELSE n
RG_rmin(n, shift) ==
  IF shift THEN Q(-1, 1)                                   \* rmin[shifted] = -pi / stride
  ELSE QAdd(Q(-1, 1), Q(1, n))                             \* (-1.0 + 1.0 / shape) * pi / stride
RG_rmax(n, shift, halved) ==
  IF halved
    THEN LET odd == (n % 2) = 1
             half_rstride == Q(1, n)                       \* pi / (shape * stride)
         IN  IF odd /\ shift THEN QNeg(half_rstride)
             ELSE IF (~odd) /\ (~shift) THEN half_rstride
             ELSE QZero
    ELSE IF shift THEN QSub(QNeg(RG_rmin(n, TRUE)), Q(2, n))  \* -rmin - 2 pi / (stride * shape)
         ELSE QNeg(RG_rmin(n, FALSE))                      \* -rmin
\* uniform_grid(rmin, rmax, rshape) -> coordinate vector = linspace(rmin, rmax, rshape)
Linspace(lo, hi, m, k) == IF m = 1 THEN lo ELSE QAdd(lo, QMul(Q(k, m - 1), QSub(hi, lo)))
RG_point(n, shift, halved, k) ==
  Linspace(RG_rmin(n, shift), RG_rmax(n, shift, halved), RG_rshape(n, halved), k)

(* ---------------- realspace_grid, one axis ------------------------------ *)
\* stride of the reciprocal grid in units of pi/stride; the real-space stride returned is
\* 2 pi / (irshape * rstride) in units of the original stride
RS_irshape(m, halved, parity) ==
  IF halved THEN (IF parity = "even" THEN 2 * m - 2 ELSE 2 * m - 1) ELSE m
RS_stride(n, shift, halved) ==
  LET m == RG_rshape(n, halved)
      rstride == IF m = 1 THEN QZero ELSE QDiv(QSub(RG_rmax(n, shift, halved), RG_rmin(n, shift)), QI(m - 1))
      irshape == RS_irshape(m, halved, IF n % 2 = 0 THEN "even" ELSE "odd")
  IN  [shape |-> irshape,
       stride |-> IF rstride = QZero THEN QZero ELSE QDiv(Q(2, 1), QMul(QI(irshape), rstride))]

(* ---------------- dft_preprocess_data: phase of entry j ----------------- *)
\* shifted: factor = (-1)^j ; else exp(-imag * pi * j * (1 - 1/length)), imag = sign * i
Pre_turn(n, shift, sign, j) ==
  IF shift THEN Frac(Q(j, 2))
  ELSE Frac(QMul(QI(-sign), Q(j * (n - 1), 2 * n)))

(* ---------------- the FFT call: direction = forward iff sign = '-' ------ *)
DFT_turn(n, sign, k, j) == Frac(Q(sign * k * j, n))

(* ---------------- dft_postprocess_data ---------------------------------- *)
\* phase: exp(imag * x0 * xi_k), xi_k = recip_grid.coord_vectors[ax][k] ; x0 = r * stride
Post_turn(n, shift, halved, sign, r, k) ==
  Frac(QMul(QI(sign), QMul(r, QMul(RG_point(n, shift, halved, k), Q(1, 2)))))
\* interpolation-kernel frequencies: the function re-derives "halfcomplex" from the lengths
PP_freq(n, shift, len_dft, k) ==
  LET halfcomplex == len_dft < n
      odd == (n % 2) = 1
      fmin == IF shift THEN Q(-1, 2) ELSE QAdd(Q(-1, 2), Q(1, 2 * n))
      fmax == IF halfcomplex
                THEN (IF shift /\ odd THEN Q(-1, 2 * n)
                      ELSE IF (~shift) /\ (~odd) THEN Q(1, 2 * n)
                      ELSE QZero)
                ELSE (IF shift THEN QSub(Q(1, 2), Q(1, n)) ELSE QSub(Q(1, 2), Q(1, 2 * n)))
  IN  Linspace(fmin, fmax, len_dft, k)

Impl_turn(n, shift, halved, sign, r, k, j) ==
  Frac(QAdd(Pre_turn(n, shift, sign, j),
            QAdd(DFT_turn(n, sign, k, j), Post_turn(n, shift, halved, sign, r, k))))

\* layer A, same units
Ref_turn(n, shift, sign, r, k, j) ==
  Frac(QMul(QI(sign), QMul(QAdd(r, QI(j)), RecipPt(n, shift, k))))

(* ---------------- range shape of DiscreteFourierTransformBase ----------- *)
\* the code passes the RAW halfcomplex argument to reciprocal_grid, although the documented
\* (and stored) flag is  halfcomplex /\ real domain.  Fixed = TRUE models the repaired code.
RanShapeImpl(shape, axes, hcarg, field, Fixed) ==
  LET flag == IF Fixed THEN hcarg /\ field = "R" ELSE hcarg
  IN  [a \in 1..Len(shape) |-> IF flag /\ a = LastAx(axes) + 1 THEN (shape[a] \div 2) + 1 ELSE shape[a]]
RanShapeRef(shape, axes, hcarg, field) == RanShape(shape, axes, hcarg /\ field = "R")

(* ---------------- cell enumeration -------------------------------------- *)
CONSTANTS MaxN, X0Set, Fixed
VARIABLES n, shift, halved, sign, r
cvars == <<n, shift, halved, sign, r>>
Init == /\ n \in 1..MaxN /\ shift \in BOOLEAN /\ halved \in BOOLEAN /\ sign \in {-1, 1} /\ r \in X0Set
Next == UNCHANGED cvars
Spec == Init /\ [][Next]_cvars

M == RG_rshape(n, halved)
GridRefines  == \A k \in 0..(M - 1) : RG_point(n, shift, halved, k) = QMul(Q(2, 1), RecipPt(n, shift, k))
FreqRefines  == \A k \in 0..(M - 1) : PP_freq(n, shift, M, k) = RecipPt(n, shift, k)
PhaseRefines == \A k \in 0..(M - 1) : \A j \in 0..(n - 1) :
                   Impl_turn(n, shift, halved, sign, r, k, j) = Ref_turn(n, shift, sign, r, k, j)
ShapeRule    == M = RecipLen(n, halved)
\* realspace_grid(reciprocal_grid(g)) has the stride and the shape of g (n >= 2; with one reciprocal
\* point the stride is undefined)
RealspaceBack == (M >= 2) => RS_stride(n, shift, halved) = [shape |-> n, stride |-> QOne]
\* range shape for 1-d and 2-d shapes built from n
ShapeRefines ==
  \A n2 \in 1..3 : \A ax \in {<<0>>, <<1>>, <<0, 1>>, <<1, 0>>} : \A field \in {"R", "C"} :
     (field = "C" /\ halved /\ ~Fixed)
     \/ RanShapeImpl(<<n, n2>>, ax, halved, field, Fixed) = RanShapeRef(<<n, n2>>, ax, halved, field)
\* the excluded cell really deviates on the current tree (so the exclusion is not vacuous)
KnownShapeDefect ==
  (halved /\ ~Fixed /\ n >= 3) =>
     RanShapeImpl(<<n>>, <<0>>, TRUE, "C", Fixed) # RanShapeRef(<<n>>, <<0>>, TRUE, "C")
=============================================================================

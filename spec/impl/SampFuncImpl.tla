---------------------------- MODULE SampFuncImpl ----------------------------
(***************************************************************************)
(* Layer C (EXT/sampfunc): the dispatch of odl/discr/discr_utils.py        *)
(* (sampling_function, _default_oop, _default_ip, array_wrapper_func,      *)
(* _broadcast_nested_list, _make_dual_use_func.dual_use_func) AS WRITTEN,  *)
(* over a small NumPy array algebra (shape + flat C-order values), and the *)
(* parameter resolution of uniform_discr_fromdiscr as written.             *)
(*                                                                         *)
(* The user's callable is modelled by what a NumPy-written function of the *)
(* given SPELLING returns for the x that ODL passes to it:                 *)
(*   expr    lambda x: c + a1*x[0] + ...   (terms with zero coefficient    *)
(*           omitted: the result has the natural broadcast shape, a Python *)
(*           scalar if no variable is used)                                *)
(*   exprx   1-d only, written with x instead of x[0]                      *)
(*   full    expr + 0*(x[0]+...): always the full shape                    *)
(*   out     def f(x, out): in-place only;   dual  def f(x, out=None)      *)
(*   tuple   one callable returning the nested tuple of its components     *)
(*           (each of its natural shape);  ndarray: np.array of full comps *)
(*   seq     nested list of component callables and Python constants       *)
(*   seqout  the same, callables with a required out parameter             *)
(* TLC checks on the bounded catalogue on which cells the outcome of this  *)
(* dispatch is the documented one (SampFuncSem!Documented); KnownCell      *)
(* names the cells where the CURRENT code leaves the documentation (open   *)
(* findings KF-EXT-SMP-2 / -3: a tuple returned by ONE callable), and is   *)
(* checked to be tight.  The cells K1 (in-place-only function, out_dtype   *)
(* None), K5 (array of callables, non-contiguous out) and the dtype of     *)
(* uniform_discr_fromdiscr were repaired in /repo (2375b05, 80d697d,       *)
(* ea69a05) and the transcription follows the repaired code.               *)
(***************************************************************************)
EXTENDS SampFuncSem

(* ------------------------- NumPy array algebra --------------------------- *)
Arr(sh, v) == [sh |-> sh, v |-> v]
Size(a) == ProdSeq(a.sh)
Ones(n) == [i \in 1..n |-> 1]
Pad(sh, r) == Ones(r - Len(sh)) \o sh
CanBroadcast(sh, tsh) ==
  /\ Len(sh) <= Len(tsh)
  /\ LET p == Pad(sh, Len(tsh)) IN \A i \in 1..Len(tsh) : p[i] = tsh[i] \/ p[i] = 1
BroadcastTo(a, tsh) ==
  LET p == Pad(a.sh, Len(tsh))
  IN  Arr(tsh, [t \in 1..ProdSeq(tsh) |->
                  LET ix == Unravel(t - 1, tsh)
                      sx == [i \in 1..Len(tsh) |-> IF p[i] = 1 THEN 0 ELSE ix[i]]
                  IN  a.v[Ravel(sx, p) + 1]])
NpSqueeze(a) == Arr(SelectSeq(a.sh, LAMBDA d : d # 1), a.v)
Reshape(a, sh) == Arr(sh, a.v)                     \* caller checks Size(a) = ProdSeq(sh)
\* assignment out[...] = a : NumPy strips leading axes of length 1 of the right-hand side first
RECURSIVE StripOnes(_)
StripOnes(sh) == IF sh # <<>> /\ Head(sh) = 1 THEN StripOnes(Tail(sh)) ELSE sh
CanAssign(a, tsh) == CanBroadcast(StripOnes(a.sh), tsh)
Assign(a, tsh) == BroadcastTo(Arr(StripOnes(a.sh), a.v), tsh)
RECURSIVE Concat(_)
Concat(ss) == IF ss = <<>> THEN <<>> ELSE Head(ss) \o Concat(Tail(ss))

(* Python values returned by user callables: scalar | array | (nested) sequence *)
PScalar(q) == [t |-> "scalar", sh |-> <<>>, v |-> <<q>>, items |-> <<>>]
PArr(a)    == [t |-> "arr", sh |-> a.sh, v |-> a.v, items |-> <<>>]
PSeq(its)  == [t |-> "seq", sh |-> <<>>, v |-> <<>>, items |-> its]
RAGGED == Arr(<<-1>>, <<>>)
\* np.asarray of a Python value: a sequence of equally shaped items is stacked, anything else is "inhomogeneous" (ValueError)
RECURSIVE AsArray(_)
AsArray(pv) ==
  IF pv.t # "seq" THEN Arr(pv.sh, pv.v)
  ELSE LET as == [i \in 1..Len(pv.items) |-> AsArray(pv.items[i])]
       IN  IF \E i \in 1..Len(as) : as[i] = RAGGED \/ as[i].sh # as[1].sh THEN RAGGED
           ELSE Arr(<<Len(as)>> \o as[1].sh, Concat([i \in 1..Len(as) |-> as[i].v]))
\* _broadcast_nested_list(arr_lists, element_shape, ndim)
RECURSIVE BcastNested(_, _, _)
BcastNested(pv, esh, nd) ==
  IF pv.t # "seq"
    THEN LET a0 == Arr(pv.sh, pv.v)
             a1 == IF nd = 1 /\ a0.sh # <<>> /\ a0.sh[1] = 1 THEN Arr(Tail(a0.sh), a0.v) ELSE a0
         IN  IF CanBroadcast(a1.sh, esh) THEN PArr(BroadcastTo(a1, esh)) ELSE [t |-> "bad", sh |-> <<>>, v |-> <<>>, items |-> <<>>]
    ELSE PSeq([i \in 1..Len(pv.items) |-> BcastNested(pv.items[i], esh, nd)])
RECURSIVE HasBad(_)
HasBad(pv) == pv.t = "bad" \/ (pv.t = "seq" /\ \E i \in 1..Len(pv.items) : HasBad(pv.items[i]))

(* --------------------- what the user's callable returns ------------------ *)
\* x as ODL passes it: mesh (nd >= 2: the tuple; nd = 1: x[0][None, ...], a (1, N) array) | (nd, N) array | point -> (nd, 1) array
\* natural shape of an expression in the variables `used`
NatShape(used, usex, nd, inp) ==
  IF used = {} THEN <<>>
  ELSE IF inp.form = "mesh" /\ nd > 1 THEN [i \in 1..nd |-> IF i \in used THEN Len(inp.cv[i]) ELSE 1]
  ELSE LET n == IF inp.form = "mesh" THEN Len(inp.cv[1]) ELSE Len(inp.pts)
       IN  IF usex THEN <<1, n>> ELSE <<n>>
\* the point an entry of such an array belongs to (coordinates of unused variables are irrelevant: first node)
PointAt(ix, sh, nd, inp) ==
  IF inp.form = "mesh" /\ nd > 1 THEN [i \in 1..nd |-> inp.cv[i][ix[i] + 1]]
  ELSE IF inp.form = "mesh" THEN <<inp.cv[1][ix[Len(sh)] + 1]>>
  ELSE inp.pts[ix[Len(sh)] + 1]
NatRet(P, used, usex, nd, inp) ==
  IF used = {} THEN PScalar(QI(P.c))
  ELSE LET sh == NatShape(used, usex, nd, inp)
       IN  PArr(Arr(sh, [t \in 1..ProdSeq(sh) |-> EvalP(P, PointAt(Unravel(t - 1, sh), sh, nd, inp))]))
AllVars(nd) == 1..nd
CompRet(P, spell, nd, inp) ==
  IF spell \in {"full", "ndarray"} THEN NatRet(P, AllVars(nd), FALSE, nd, inp)
  ELSE NatRet(P, UsedVars(P), spell = "exprx", nd, inp)
RECURSIVE Nest(_, _)
\* nested sequence of the flat row-major list its according to the value shape vs
Nest(its, vs) ==
  IF Len(vs) <= 1 THEN PSeq(its)
  ELSE LET m == Len(its) \div vs[1]
       IN  PSeq([i \in 1..vs[1] |-> Nest(SubSeq(its, (i - 1) * m + 1, i * m), Tail(vs))])
UserRet(F, spell, inp) ==
  LET rs == [k \in 1..Len(F.comps) |-> CompRet(F.comps[k], spell, F.nd, inp)]
  IN  IF F.vs = <<>> THEN rs[1]
      ELSE IF spell = "ndarray" THEN PArr(AsArray(Nest(rs, F.vs)))
      ELSE Nest(rs, F.vs)
\* in-place user functions write every component with  out[k][...] = expr  (NumPy assignment broadcasting)
UserWrites(F, spell, inp, ssh) ==
  LET ws == [k \in 1..Len(F.comps) |-> LET r == CompRet(F.comps[k], "expr", F.nd, inp) IN Assign(Arr(r.sh, r.v), ssh)]
  IN  Arr(F.vs \o ssh, Concat([k \in 1..Len(ws) |-> ws[k].v]))

(* ------------------------------ the dispatch ----------------------------- *)
HasOut(spell)      == spell \in {"out", "dual"}
OutOptional(spell) == spell = "dual"
IsSeq(spell)       == spell \in {"seq", "seqout"}
\* inside ODL the input of a point is the (nd, 1) array
AsPassed(inp) == inp
ScalarOutShape(inp) == IF inp.form = "pt" THEN <<1>> ELSE SShape(inp)

\* array_wrapper_func, out-of-place: every member result is reshaped or broadcast to scalar_out_shape
SeqOop(F, inp, ssh) ==
  LET rs == [k \in 1..Len(F.comps) |-> LET r == CompRet(F.comps[k], "expr", F.nd, inp)
                                         IN  IF ProdSeq(r.sh) = ProdSeq(ssh) THEN Arr(ssh, r.v) ELSE BroadcastTo(Arr(r.sh, r.v), ssh)]
  IN  Arr(F.vs \o ssh, Concat([k \in 1..Len(rs) |-> rs[k].v]))

\* _default_ip(func_oop, x, out): np.array(result); ragged -> _broadcast_nested_list + reshape; then reshape or broadcast into out
DefaultIp(F, spell, inp, ssh, outsh) ==
  LET ret == UserRet(F, spell, inp)
      a0  == AsArray(ret)
      bn  == BcastNested(ret, ssh, F.nd)
  IN  IF a0 = RAGGED /\ HasBad(bn) THEN Err("ValueError")
      ELSE LET res == IF a0 = RAGGED THEN Reshape(AsArray(bn), F.vs \o ssh) ELSE a0
           IN  IF Size(res) = ProdSeq(outsh) THEN Ok(Reshape(res, outsh))
               ELSE IF CanAssign(res, outsh) THEN Ok(Assign(res, outsh))
               ELSE Err("ValueError")

\* one call  wrapper(x, out=..., bounds_check=...)  of sampling_function(f, domain, out_dtype)
ImplCall(c, spell) ==
  LET F   == Shift(c.F, c.kw)
      nd  == F.nd
      inp == c.inp
      tv  == F.vs # <<>>                               \* tensor_valued
      sin == inp.form = "pt"                           \* scalar_in
      ssh == ScalarOutShape(inp)
      osh == IF sin THEN F.vs ELSE F.vs \o ssh         \* out_shape
      dt  == ResDType(c.dt)
  IN  IF c.xbad # "" THEN Err("TypeError")
      ELSE IF c.bc # "off" /\ ~AllInDom(c.dom, inp) THEN Err("ValueError")
      ELSE IF c.out = "none" THEN
        (IF IsSeq(spell) THEN (IF sin THEN Ok(Arr(osh, SeqOop(F, inp, ssh).v)) ELSE Ok(SeqOop(F, inp, ssh)))
         ELSE IF HasOut(spell) /\ ~OutOptional(spell) THEN
            \* _default_oop: out = np.empty(val_shape + scalar_out_shape); func_ip(x, out=out)
            \* (val_shape = () where the float64 default replaces out_dtype = None - repaired by 2375b05)
            Ok(Arr(osh, UserWrites(F, spell, inp, ssh).v))
         ELSE IF HasOut(spell) THEN
            \* dual-use function called without out: returns its full result
            LET a == AsArray(UserRet(F, IF tv THEN "ndarray" ELSE "full", inp)) IN Ok(Arr(osh, a.v))
         ELSE
            LET ret == UserRet(F, spell, inp) IN
            IF ret.t # "seq" THEN
              LET a0 == Arr(ret.sh, ret.v)
                  a1 == IF sin THEN NpSqueeze(a0)
                        ELSE IF nd = 1 /\ a0.sh = <<1>> \o osh THEN Reshape(a0, osh) ELSE a0
              IN  IF osh # <<>> /\ a1.sh # osh
                    THEN (IF CanBroadcast(a1.sh, osh) THEN Ok(BroadcastTo(a1, osh)) ELSE Err("ValueError"))
                    ELSE Ok(a1)
            ELSE IF tv THEN
              LET a0 == AsArray(ret)
                  bn == BcastNested(ret, ssh, nd)
              IN  IF a0 = RAGGED /\ HasBad(bn) THEN Err("ValueError")
                  ELSE LET arr == IF a0 = RAGGED THEN AsArray(bn) ELSE a0
                       IN  IF dt # "f64" THEN Err("ValueError")            \* 'result is of dtype float, expected ...'
                           ELSE IF Size(arr) # ProdSeq(osh) THEN Err("ValueError")   \* out_arr.reshape(out_shape)
                           ELSE Ok(Reshape(arr, osh))
            ELSE Err("RuntimeError"))
      ELSE IF c.out = "notarray" THEN Err("TypeError")
      ELSE IF c.out \in {"badshape", "baddtype"} THEN Err("ValueError")
      ELSE \* in place, out of the adequate shape osh ("nc": not C-contiguous - a Fortran-ordered array or a strided view)
        \* array_wrapper_func indexes the value axes of out (always views; repaired by 80d697d), so the layout of out
        \* does not matter
        (IF IsSeq(spell) \/ HasOut(spell) THEN Ok(UserWrites(F, spell, inp, ssh))
         ELSE DefaultIp(F, spell, inp, ssh, osh))

(* --------------------- where the current code leaves layer A ------------- *)
AgreesDoc(c, spell) ==
  LET d == Documented(c)  i == ImplCall(c, spell)
  IN  IF d.k = "err" THEN i.k = "err" /\ ErrMatches(d.err, i.err) ELSE i = d
\* all components of a tuple-returning callable have the same natural shape, and it is not the full one
UniformPartial(F, inp) ==
  LET shs == { NatShape(UsedVars(F.comps[k]), FALSE, F.nd, inp) : k \in 1..Len(F.comps) }
  IN  Cardinality(shs) = 1 /\ \E s \in shs : ProdSeq(s) # ProdSeq(ScalarOutShape(inp))
AllConst(F) == \A k \in 1..Len(F.comps) : UsedVars(F.comps[k]) = {}
Valid(c) == c.xbad = "" /\ c.out \in {"none", "ok", "nc"} /\ (c.bc = "off" \/ AllInDom(c.dom, c.inp))
KnownCell(c, spell) ==
  /\ Valid(c)
  /\ \/ spell = "tuple" /\ c.F.vs # <<>> /\ c.out = "none" /\ ResDType(c.dt) # "f64"         \* K2 dtype of a returned tuple
     \/ spell = "tuple" /\ c.F.vs # <<>> /\ c.out = "none" /\ c.inp.form # "pt" /\ UniformPartial(c.F, c.inp)   \* K3 no broadcast
     \/ spell = "tuple" /\ c.F.vs # <<>> /\ c.out \in {"ok", "nc"} /\ c.inp.form # "pt" /\ AllConst(c.F)         \* K3 in place
Refines(c, spell) == KnownCell(c, spell) \/ AgreesDoc(c, spell)
KnownIsTight(c, spell) == KnownCell(c, spell) => ~AgreesDoc(c, spell)

(* ---------------- uniform_discr_fromdiscr: parameters as written --------- *)
\* new_params of the loop over the axes, then uniform_partition(min_pt, max_pt, shape, cell_sides, nodes_on_bdry)
FdImplParams(o, a) ==
  LET gm == ~IsNoneQ(a.min)  gx == ~IsNoneQ(a.max)  gn == a.n # NONE  gh == ~IsNoneQ(a.h)
      k  == NGiven(a)  os == OldSide(o)
  IN  IF k = 0 THEN A4(o.min, o.max, o.n, NoneQ)
      ELSE IF k = 1 THEN
        (IF gm THEN A4(a.min, QAdd(o.max, QSub(a.min, o.min)), o.n, NoneQ)
         ELSE IF gx THEN A4(QAdd(o.min, QSub(a.max, o.max)), a.max, o.n, NoneQ)
         ELSE IF gn THEN A4(o.min, o.max, a.n, NoneQ)
         ELSE A4(o.min, o.max, NONE, a.h))
      ELSE IF k = 2 THEN
        (IF gm /\ gx THEN A4(a.min, a.max, o.n, NoneQ)
         ELSE IF gm /\ gn THEN A4(a.min, NoneQ, a.n, os)
         ELSE IF gm /\ gh THEN A4(a.min, NoneQ, o.n, a.h)
         ELSE IF gx /\ gn THEN A4(NoneQ, a.max, a.n, os)
         ELSE IF gx /\ gh THEN A4(NoneQ, a.max, o.n, a.h)
         ELSE A4(NoneQ, NoneQ, NONE, NoneQ))            \* raise ValueError
      ELSE a
FdImplAxis(o, a, L, R) ==
  IF NGiven(a) = 2 /\ IsNoneQ(a.min) /\ IsNoneQ(a.max) THEN Axis(NoneQ, NoneQ, <<>>)
  ELSE UniformPartitionAxis(FdImplParams(o, a), L, R)
FdRefines(o, a, L, R) ==
  LET ax == FdImplAxis(o, a, L, R)
  IN  IF IsErrAxis(ax) THEN FdMayRaise(o, a, L, R) ELSE ax \in FdAllowed(o, a, L, R)
\* dtype = kwargs.pop('dtype', discr.dtype); uniform_discr_frompartition(new_part, dtype=dtype, exponent=discr.exponent,
\* impl=discr.impl, **kwargs)   (repaired by ea69a05: no known cell is left)
FdImplDType(tdt, given) == IF given = "" THEN tdt ELSE given
FdDTypeKnown(tdt, given) == FALSE
=============================================================================

------------------------------ MODULE SpdhgImpl ------------------------------
(***************************************************************************)
(* Layer C (EXT/spdhg): the statement structure of spdhg_generic            *)
(* (odl/contrib/solvers/spdhg/stochastic_primal_dual_hybrid_gradient.py)    *)
(* transcribed AS WRITTEN - the option defaults at entry (y, z, mu_g,       *)
(* theta, extra), the `fun_select` call, the primal update through the      *)
(* z_relax register used as a temporary, the theta update hook, the         *)
(* per-block dual update with the y_old / dz temporaries in the ORDER of    *)
(* the returned list, the z / z_relax bookkeeping, the step-size update     *)
(* hook - one TLA+ action per statement.  TLC checks that at every callback *)
(* the registers equal the layer-A step (SpdhgSem!SpdhgStep with the SET of *)
(* the selected blocks and the documented theta / extra / acceleration      *)
(* rules):  C refines A on the bounded instance (AtCallbackRefines), for    *)
(* every order in which a selection may be listed.                          *)
(***************************************************************************)
EXTENDS SpdhgSem, TLC

CONSTANTS Calls,     \* sequence of call records [c (case), opt]  opt = [y, z, mug, extra : "given" | "none"]
          SelLists(_),  \* SelLists(nb): the lists fun_select may return (sequences of distinct block indices)
          NIter

VARIABLES call, pc, k, sel, idx,
          x, y, z, zrel, dz, yold, theta, tau, sigma, extra, upd,     \* the local variables of the function
          ref, refst                                                   \* layer-A shadow
ivars == <<call, pc, k, sel, idx, x, y, z, zrel, dz, yold, theta, tau, sigma, extra, upd, ref, refst>>

K == Calls[call].c
O == Calls[call].opt
P == K.P
Garbage == <<>>                 \* an uninitialised element (space.element()): never equal to a vector
RangeOf(s) == {s[j] : j \in 1..Len(s)}
YIsZero(yy) == \A i \in 1..Len(yy) : \A j \in 1..Len(yy[i]) : yy[i][j] = QZero

\* ---- entry: kwargs.pop(...) defaults, as written
Entry(cl) ==
  LET c == Calls[cl].c  o == Calls[cl].opt
      y0 == IF o.y = "none" THEN YZero(c.P) ELSE c.y0                       \* y = A.range.zero()
      z0 == IF o.z = "none" THEN (IF YIsZero(y0) THEN VZero(c.P.n)          \* if y.norm() == 0: z = A.domain.zero()
                                  ELSE AdjAll(c.P, y0))                     \* else: z = A.adjoint(y)
            ELSE AdjAll(c.P, c.y0)                                          \* the caller's z (documented: z = A^* y)
  IN  /\ call = cl
      /\ x = c.x0 /\ y = y0 /\ z = z0
      /\ upd = (o.mug # "none")                                             \* update_proximal_primal
      /\ theta = c.theta                                                    \* kwargs.pop('theta', 1): the catalogue passes it
      /\ extra = IF o.extra = "none" THEN [i \in 1..Len(c.sigma) |-> QOne] ELSE c.extra
      /\ zrel = z0                                                          \* z_relax = z.copy()
      /\ dz = Garbage /\ yold = [i \in 1..NB(c.P) |-> Garbage]              \* A.domain.element(), A.range.element()
      /\ tau = c.tau /\ sigma = c.sigma
      /\ k = 0 /\ sel = <<>> /\ idx = 0 /\ pc = "select"
      \* layer A: documented start - y defaults to 0, z = A^* y, zr = z ; extra_i = 1 by default
      /\ ref = [x |-> c.x0, y |-> y0, z |-> AdjAll(c.P, y0), zr |-> AdjAll(c.P, y0)]
      /\ refst = [tau |-> c.tau, sigma |-> c.sigma]

Init == \E cl \in 1..Len(Calls) : Entry(cl)

Goto(l) == pc' = l
Keep(vs) == UNCHANGED vs

RefTheta == IF O.mug = "none" THEN K.theta ELSE PaTheta(K.mug, refst.tau)
RefExtra == IF O.extra = "none" THEN [i \in 1..NB(P) |-> QOne] ELSE K.extra

\* selected = fun_select(k)
Select == /\ pc = "select" /\ k < NIter
          /\ (O.mug # "none" => PaTheta(K.mug, tau) # Irr)
          /\ \E s \in SelLists(NB(P)) :
               /\ sel' = s
               /\ ref' = SpdhgStep(P, ref, RangeOf(s), refst.tau, refst.sigma, RefTheta, RefExtra)
               /\ refst' = IF O.mug = "none" THEN refst
                           ELSE [tau |-> QMul(refst.tau, RefTheta),
                                 sigma |-> [i \in 1..NB(P) |-> QDiv(refst.sigma[i], RefTheta)]]
          /\ Goto("primal_tmp")
          /\ Keep(<<call, k, idx, x, y, z, zrel, dz, yold, theta, tau, sigma, extra, upd>>)
\* z_relax.lincomb(1, x, -tau, z_relax)
PrimalTmp == /\ pc = "primal_tmp" /\ zrel' = VSub(x, VScale(tau, zrel)) /\ Goto("primal_prox")
             /\ Keep(<<call, k, sel, idx, x, y, z, dz, yold, theta, tau, sigma, extra, upd, ref, refst>>)
\* proximal_primal_tau(z_relax, out=x)
PrimalProx == /\ pc = "primal_prox" /\ x' = ProxG(P.g, tau, zrel) /\ Goto("theta")
              /\ Keep(<<call, k, sel, idx, y, z, zrel, dz, yold, theta, tau, sigma, extra, upd, ref, refst>>)
\* if update_proximal_primal: theta = float(1 / np.sqrt(1 + 2 * mu_g * tau))
ThetaUpd == /\ pc = "theta" /\ theta' = (IF upd THEN ThetaOf(QMul(K.mug, tau)) ELSE theta) /\ Goto("assign")
            /\ Keep(<<call, k, sel, idx, x, y, z, zrel, dz, yold, tau, sigma, extra, upd, ref, refst>>)
\* z_relax.assign(z) ; for i in selected:
Assign == /\ pc = "assign" /\ zrel' = z /\ idx' = 1 /\ Goto("loop")
          /\ Keep(<<call, k, sel, x, y, z, dz, yold, theta, tau, sigma, extra, upd, ref, refst>>)
Loop == /\ pc = "loop" /\ Goto(IF idx <= Len(sel) THEN "save" ELSE "accel")
        /\ Keep(<<call, k, sel, idx, x, y, z, zrel, dz, yold, theta, tau, sigma, extra, upd, ref, refst>>)
I == sel[idx]
\* y_old[i].assign(y[i])
Save == /\ pc = "save" /\ yold' = [yold EXCEPT ![I] = y[I]] /\ Goto("fwd")
        /\ Keep(<<call, k, sel, idx, x, y, z, zrel, dz, theta, tau, sigma, extra, upd, ref, refst>>)
\* A[i](x, out=y[i])
FwdS == /\ pc = "fwd" /\ y' = [y EXCEPT ![I] = Fwd(P, I, x)] /\ Goto("lincomb")
        /\ Keep(<<call, k, sel, idx, x, z, zrel, dz, yold, theta, tau, sigma, extra, upd, ref, refst>>)
\* y[i].lincomb(1, y_old[i], sigma[i], y[i])
Lincomb == /\ pc = "lincomb" /\ y' = [y EXCEPT ![I] = VAdd(yold[I], VScale(sigma[I], y[I]))] /\ Goto("prox")
           /\ Keep(<<call, k, sel, idx, x, z, zrel, dz, yold, theta, tau, sigma, extra, upd, ref, refst>>)
\* proximal_dual_sigma[i](y[i], out=y[i])
ProxS == /\ pc = "prox" /\ y' = [y EXCEPT ![I] = ProxFConj(P.blocks[I].f, sigma[I], y[I])] /\ Goto("diff")
         /\ Keep(<<call, k, sel, idx, x, z, zrel, dz, yold, theta, tau, sigma, extra, upd, ref, refst>>)
\* y_old[i].lincomb(-1, y_old[i], 1, y[i])
Diff == /\ pc = "diff" /\ yold' = [yold EXCEPT ![I] = VAdd(VScale(QI(-1), yold[I]), y[I])] /\ Goto("adj")
        /\ Keep(<<call, k, sel, idx, x, y, z, zrel, dz, theta, tau, sigma, extra, upd, ref, refst>>)
\* A[i].adjoint(y_old[i], out=dz)
AdjS == /\ pc = "adj" /\ dz' = Adj(P, I, yold[I]) /\ Goto("zadd")
        /\ Keep(<<call, k, sel, idx, x, y, z, zrel, yold, theta, tau, sigma, extra, upd, ref, refst>>)
\* z += dz
ZAdd == /\ pc = "zadd" /\ z' = VAdd(z, dz) /\ Goto("relax")
        /\ Keep(<<call, k, sel, idx, x, y, zrel, dz, yold, theta, tau, sigma, extra, upd, ref, refst>>)
\* z_relax.lincomb(1, z_relax, 1 + theta * extra[i], dz)
Relax == /\ pc = "relax" /\ zrel' = VAdd(zrel, VScale(QAddL(QOne, QMul(theta, extra[I])), dz))
         /\ idx' = idx + 1 /\ Goto("loop")
         /\ Keep(<<call, k, sel, x, y, z, dz, yold, theta, tau, sigma, extra, upd, ref, refst>>)
\* if update_proximal_primal: sigma[i] /= theta (all i) ; tau *= theta ; the proximals are rebuilt
Accel == /\ pc = "accel"
         /\ sigma' = IF upd THEN [i \in 1..Len(sigma) |-> QDiv(sigma[i], theta)] ELSE sigma
         /\ tau' = IF upd THEN QMul(tau, theta) ELSE tau
         /\ Goto("callback")
         /\ Keep(<<call, k, sel, idx, x, y, z, zrel, dz, yold, theta, extra, upd, ref, refst>>)
\* callback([x, y]) ; next k
Callback == /\ pc = "callback" /\ k' = k + 1 /\ Goto("select")
            /\ Keep(<<call, sel, idx, x, y, z, zrel, dz, yold, theta, tau, sigma, extra, upd, ref, refst>>)

Next == Select \/ PrimalTmp \/ PrimalProx \/ ThetaUpd \/ Assign \/ Loop \/ Save \/ FwdS \/ Lincomb \/ ProxS
        \/ Diff \/ AdjS \/ ZAdd \/ Relax \/ Accel \/ Callback
Spec == Init /\ [][Next]_ivars

\* ---------------------------------------------------------------- refinement
AtCallbackRefines ==
  pc = "callback" => /\ x = ref.x /\ y = ref.y /\ z = ref.z /\ zrel = ref.zr
                     /\ tau = refst.tau /\ sigma = refst.sigma
\* the bookkeeping invariant holds at every statement boundary where z has absorbed the block's dz
ZBook == pc \in {"select", "callback", "accel"} => z = AdjAll(P, y)
\* z_relax is a temporary between "primal_tmp" and "assign": nothing reads it as the extrapolated z there
NoGarbageRead == pc \in {"zadd", "relax"} => dz # Garbage
\* non-vacuity: some callback is reached with a selection of two blocks listed in descending order
BogusNeverDescending == ~(pc = "callback" /\ Len(sel) >= 2 /\ sel[1] > sel[2])
=============================================================================

------------------------------- MODULE FomImpl ------------------------------
(***************************************************************************)
(* Layer C (extension EXT/fom): the option decision trees of               *)
(* odl/contrib/fom/supervised.py AS WRITTEN (statement order of the code): *)
(*   - where the mask is applied (data * mask, ground_truth * mask BEFORE  *)
(*     every norm / mean) and which normalisation volume is used (the      *)
(*     volume of the WHOLE space, l?norm(space.one()), not of the ROI);    *)
(*     range_difference instead casts the mask to bool and INDEXES;        *)
(*   - the normalized branch with its denominators and what happens when   *)
(*     the denominator is 0: mse / mvd divide anyway (0/0 = NaN), mae      *)
(*     raises ZeroDivisionError (Python float division),                   *)
(*     sdd and rd test `denom == 0` and return 0.0;                        *)
(*   - force_lower_is_better: ignored by the five norm FOMs, negation for  *)
(*     psnr (after the inf / -inf branches), for ssim negation BEFORE the  *)
(*     (s + 1) / 2 mapping;                                                *)
(*   - blurring = mean_squared_error(data, ground_truth, alpha, normalized)*)
(*   - psnr: mse == 0 -> inf ; elif max_true == 0 -> -inf ; else formula.  *)
(* Refines(c): the outcome of the code model is a documented outcome       *)
(* wherever layer A defines one.                                           *)
(***************************************************************************)
EXTENDS FomSem

IVal(q) == [k |-> "q", v |-> q]
\* l2norm(a) + l2norm(b) squared, on exact carriers
IAddRootsSq(A, B) == IF SqrtPairOK(A, B) THEN SumRootsSq(A, B) ELSE NaN      \* NaN here = "irrational", see callers

ImplMSE(cv, data0, gt0, mask, normalized) ==
  LET data == IF mask # <<>> THEN VMul(data0, mask) ELSE data0
      gt == IF mask # <<>> THEN VMul(gt0, mask) ELSE gt0
      diff == VSub(data, gt)
      fom == Norm2Sq(cv, diff)
  IN  IF normalized = 1
        THEN LET A == Norm2Sq(cv, data)  B == Norm2Sq(cv, gt) IN
             IF ~SqrtPairOK(A, B) THEN IRR
             ELSE LET den == SumRootsSq(A, B) IN
                  IF QIsZero(den) THEN {IVal(NaN)} ELSE {IVal(QDiv(fom, den))}          \* 0.0 / 0.0
      ELSE {IVal(QDiv(fom, Norm2Sq(cv, Ones(Len(data)))))}

ImplMAE(cv, data0, gt0, mask, normalized) ==
  LET data == IF mask # <<>> THEN VMul(data0, mask) ELSE data0
      gt == IF mask # <<>> THEN VMul(gt0, mask) ELSE gt0
      fom == Norm1(cv, VSub(data, gt))
  IN  IF normalized = 1
        THEN LET den == QAdd(Norm1(cv, data), Norm1(cv, gt)) IN
             \* l1_norm returns a Python float: 0.0 / 0.0 raises (the L2 / inner-product siblings return NumPy floats)
             IF QIsZero(den) THEN {Err("ZeroDivisionError")} ELSE {IVal(QDiv(fom, den))}
      ELSE {IVal(QDiv(fom, Norm1(cv, Ones(Len(data)))))}

ImplMVD(cv, data0, gt0, mask, normalized) ==
  LET data == IF mask # <<>> THEN VMul(data0, mask) ELSE data0
      gt == IF mask # <<>> THEN VMul(gt0, mask) ELSE gt0
      vol == Norm1(cv, Ones(Len(data)))
      dm == QDiv(Inner1(cv, data), vol)
      gm == QDiv(Inner1(cv, gt), vol)
      fom == QAbs(QSub(dm, gm))
  IN  IF normalized = 1
        THEN LET den == QAdd(QAbs(dm), QAbs(gm)) IN
             IF QIsZero(den) THEN {IVal(NaN)} ELSE {IVal(QDiv(fom, den))}
      ELSE {IVal(fom)}

ImplSDD(cv, data0, gt0, mask, normalized) ==
  LET data == IF mask # <<>> THEN VMul(data0, mask) ELSE data0
      gt == IF mask # <<>> THEN VMul(gt0, mask) ELSE gt0
      vol == Norm1(cv, Ones(Len(data)))
      dm == QDiv(Inner1(cv, data), vol)
      gm == QDiv(Inner1(cv, gt), vol)
      A == Norm2Sq(cv, VShift(data, dm))
      B == Norm2Sq(cv, VShift(gt, gm))
  IN  IF ~(FIsSquare(A) /\ FIsSquare(B)) THEN IRR
      ELSE LET dd == FSqrt(A)  dg == FSqrt(B)  fom == QAbs(QSub(dd, dg)) IN
           IF normalized = 1
             THEN LET denom == QAdd(dd, dg) IN
                  IF QIsZero(denom) THEN {IVal(QZero)} ELSE {IVal(QDiv(fom, denom))}
           ELSE {IVal(fom)}

ImplRD(data0, gt0, mask, normalized) ==
  LET data == IF mask # <<>> THEN Roi(data0, mask) ELSE data0      \* np.asarray(mask, dtype=bool): nonzero = True
      gt == IF mask # <<>> THEN Roi(gt0, mask) ELSE gt0
  IN  IF data = <<>> THEN {Err("ValueError")}                      \* np.ptp of an empty selection
      ELSE LET dr == Ptp(data)  gr == Ptp(gt)  fom == QAbs(QSub(dr, gr)) IN
           IF normalized = 1
             THEN LET denom == QAbs(QAdd(dr, gr)) IN
                  IF QIsZero(denom) THEN {IVal(QZero)} ELSE {IVal(QDiv(fom, denom))}
           ELSE {IVal(fom)}

\* blurring: mask (already the weight alpha here) is handed to mean_squared_error positionally
ImplBLUR(cv, data, gt, alpha, hasmask, normalized) ==
  ImplMSE(cv, data, gt, (IF hasmask THEN alpha ELSE <<>>), normalized)

ImplPSNR(cv, data0, gt0, useZ, flb) ==
  IF useZ = 1 /\ ~(ZOK(data0) /\ ZOK(gt0)) THEN IRR
  ELSE LET data == IF useZ = 1 THEN Z(data0) ELSE data0
           gt == IF useZ = 1 THEN Z(gt0) ELSE gt0
           mse == QDiv(Norm2Sq(cv, VSub(data, gt)), Norm2Sq(cv, Ones(Len(data))))
           maxtrue == MaxAbs(gt)
           \* R = 10^(result/10)
           r == IF QIsZero(mse) THEN Inf
                ELSE IF QIsZero(maxtrue) THEN QZero
                ELSE QDiv(QSq(maxtrue), mse)
       IN  {IVal(IF flb = 1 THEN QInvX(r) ELSE r)}

ImplSSIM1(f, g, x, normalized, flb) ==
  LET dr == IF x[3] = <<-1, 1>> THEN QSub(QMaxSeq(g), QMinSeq(g)) ELSE x[3]
      C1 == QSq(QMul(x[1], dr))  C2 == QSq(QMul(x[2], dr))
      bad == QIsZero(C2) \/ \E i \in 1..Len(f) : QIsZero(QAdd(QAdd(QSq(f[i]), QSq(g[i])), C1))
  IN  IF bad THEN {IVal(NaN)}
      ELSE LET pw == [i \in 1..Len(f) |->
                        QDiv(QMul(QAdd(QMul(QI(2), QMul(f[i], g[i])), C1), C2),
                             QMul(QAdd(QAdd(QSq(f[i]), QSq(g[i])), C1), C2))]
               result == QDiv(Sum(pw), QI(Len(f)))
               r1 == IF flb = 1 THEN QNeg(result) ELSE result
               r2 == IF normalized = 1 THEN QDiv(QAdd(r1, QOne), QI(2)) ELSE r1
           IN  {IVal(r2)}

Impl(c) ==
  LET cv == CellVol(c.cs) IN
  CASE c.fn = "mse" -> ImplMSE(cv, c.f, c.g, c.m, c.norm)
    [] c.fn = "mae" -> ImplMAE(cv, c.f, c.g, c.m, c.norm)
    [] c.fn = "mvd" -> ImplMVD(cv, c.f, c.g, c.m, c.norm)
    [] c.fn = "sdd" -> ImplSDD(cv, c.f, c.g, c.m, c.norm)
    [] c.fn = "rd" -> ImplRD(c.f, c.g, c.m, c.norm)
    [] c.fn = "blur" -> ImplBLUR(cv, c.f, c.g, c.m, c.m # <<>>, c.norm)
    [] c.fn = "psnr" -> ImplPSNR(cv, c.f, c.g, c.norm, c.flb)
    [] c.fn = "ssim1" -> ImplSSIM1(c.f, c.g, c.x, c.norm, c.flb)
    [] OTHER -> ANY

HasImpl(c) == c.fn \in {"mse", "mae", "mvd", "sdd", "rd", "blur", "psnr", "ssim1"}
Refines(c) ==
  ~HasImpl(c) \/ LET al == Allowed(c)  im == Impl(c) IN IsAny(al) \/ IsIrr(al) \/ IsIrr(im) \/ im \subseteq al
\* the displayed BLUR formulas alone (without the "equivalent to MSE" note) - refuted by the code model
RefinesBlurStrict(c) ==
  c.fn # "blur" \/ LET al == BlurStrict(CellVol(c.cs), c.f, c.g, (IF c.m = <<>> THEN Ones(Len(c.f)) ELSE c.m), c.norm)
                       im == Impl(c) IN IsAny(al) \/ IsIrr(im) \/ im \subseteq al
\* what the code does where the documentation is silent (recorded, compared with real ODL as drift only)
Degenerate(c) == HasImpl(c) /\ IsAny(Allowed(c))
=============================================================================

----------------------------- MODULE DetectorImpl -----------------------------
(***************************************************************************)
(* Layer C (EXT/detector): the decision structure of                       *)
(* odl/tomo/geometry/detector.py AS WRITTEN                                *)
(*   ImplShape   parameter-form dispatch of every method: squeeze_out /    *)
(*               scalar_out tests, ndmin=1, outer products, broadcast_to,  *)
(*               broadcast_arrays, squeeze(), the moveaxis(-2, 0) + cross  *)
(*               of the default surface_normal / surface_measure,          *)
(*               perpendicular_vector's own ndmin=2 / squeeze              *)
(*   ImplRot     rotation matrices of the curved detectors: sin / cos from *)
(*               the axis (circular), r2 r1 from two calls of              *)
(*               rotation_matrix_from_to (cylindrical, spherical; the      *)
(*               transcription RotImpl!FromToImpl of that function is      *)
(*               reused)                                                   *)
(*   ImplCtor    the constructor checks in the order of the code           *)
(* checked by TLC to refine layer A (DetectorSem) on the bounded instance. *)
(* Two places where the current code does NOT refine the documentation are *)
(* transcribed faithfully and fenced by predicates (RaggedMeasure,         *)
(* FrameFlip) that the refinement invariants quantify around and that the  *)
(* "quirk" invariants pin down exactly.                                    *)
(***************************************************************************)
EXTENDS DetectorSem, RotImpl

RAISE == <<-2>>
Squeeze(s) == SelectSeq(s, LAMBDA x : x # 1)
Nd1(s)     == IF s = <<>> THEN <<1>> ELSE s                    \* np.array(p, ndmin=1).shape
Front(s)   == SubSeq(s, 1, Len(s) - 1)

(* ------------------------- surface / surface_deriv ---------------------- *)
ImplSurfShape(cls, shs) ==
  IF NDimOf(cls) = 1 THEN
    \* squeeze_out = (np.shape(param) == ()); np.multiply.outer(param, axis) resp. np.empty(param.shape + (2,))
    LET out == Nd1(shs[1]) \o <<2>> IN IF shs[1] = <<>> THEN Squeeze(out) ELSE out
  ELSE
    \* squeeze_out = (np.broadcast(*param).shape == ())
    LET sq  == BcastAll(shs) = <<>>
        out == IF cls = "flat2"
                 THEN Bcast2(Nd1(shs[1]) \o <<3>>, Nd1(shs[2]) \o <<3>>)          \* sum of the two outer products
                 ELSE BcastAll(<<Nd1(shs[1]), Nd1(shs[2])>>) \o <<3>>             \* np.broadcast_arrays, np.empty(shape + (3,))
    IN  IF sq THEN Squeeze(out) ELSE out
ImplDerivShape(cls, shs) ==
  IF cls = "flat1" THEN (IF shs[1] = <<>> THEN <<2>> ELSE Nd1(shs[1]) \o <<2>>)          \* return self.axis / broadcast_to
  ELSE IF cls = "circ" THEN (LET out == Nd1(shs[1]) \o <<2>> IN IF shs[1] = <<>> THEN Squeeze(out) ELSE out)
  ELSE LET sq == BcastAll(shs) = <<>>
           pb == BcastAll(<<Nd1(shs[1]), Nd1(shs[2])>>)
       IN  IF cls = "flat2" THEN (IF sq THEN <<2, 3>> ELSE pb \o <<2, 3>>)                \* return self.axes / broadcast_to
           ELSE (IF sq THEN Squeeze(pb \o <<2, 3>>) ELSE pb \o <<2, 3>>)                 \* np.stack(axis=-2), squeeze()

(* ----------------- default surface_normal / surface_measure ------------- *)
\* perpendicular_vector(vec): squeeze_out = (ndim == 1); ndmin=2; result.squeeze() if squeeze_out
PerpShape(D) == IF Len(D) = 1 THEN Squeeze(<<1>> \o D) ELSE D
\* np.moveaxis(deriv, -2, 0) if deriv.ndim > 2; np.cross(*deriv, axis=-1)
CrossShape(D) == IF Len(D) > 2 THEN SubSeq(D, 1, Len(D) - 2) \o <<D[Len(D)]>> ELSE <<D[Len(D)]>>
ImplNormalShape(cls, shs) ==
  LET D == ImplDerivShape(cls, shs) IN
  IF NDimOf(cls) = 1 THEN PerpShape(D) ELSE CrossShape(D)
\* the 2-d default tests scalar_out = (np.shape(param) == (2,)): np.shape of a sequence whose two entries have different
\* shapes raises (inhomogeneous array)
RaggedMeasure(cls, shs) == NDimOf(cls) = 2 /\ shs[1] # shs[2]
ImplMeasureShape(cls, shs) ==
  IF cls = "circ" THEN (IF shs[1] = <<>> THEN <<>> ELSE Nd1(shs[1]))                       \* radius * np.ones(param.shape)
  ELSE IF cls = "flat1" THEN (IF shs[1] = <<>> THEN <<>> ELSE Front(ImplDerivShape(cls, shs)))   \* norm(axis=-1)
  ELSE IF shs[1] # shs[2] THEN RAISE
  ELSE IF shs[1] = <<>> THEN <<>> ELSE Front(CrossShape(ImplDerivShape(cls, shs)))

ImplShape(cls, m, shs) ==
  CASE m = "surface" -> ImplSurfShape(cls, shs)
    [] m = "deriv"   -> ImplDerivShape(cls, shs)
    [] m = "normal"  -> ImplNormalShape(cls, shs)
    [] m = "measure" -> ImplMeasureShape(cls, shs)
SemShape(cls, m, shs) == BcastAll(shs) \o TailShape(cls, m)

(* ------------------------------ rotations ------------------------------- *)
\* circular: sin = axis[0]; cos = -axis[1]; [[cos, -sin], [sin, cos]] with the NORMALISED axis
\* cylindrical / spherical: initial_axes = [[0, -1, 0], [0, 0, 1]]; r1 = from_to(initial[0], axes[0]);
\*   r2 = from_to(r1 initial[1], axes[1]); rotation = r2 r1   (axes as given, from_to normalises itself)
ImplRot(d) ==
  LET a == UnitAxes(d) IN
  IF d.cls = "circ" THEN LET sn == a[1][1]  cs == QNeg(a[1][2]) IN << <<cs, QNeg(sn)>>, <<sn, cs>> >>
  ELSE LET r1 == FromToImpl(<<QZero, QNeg(QOne), QZero>>, d.ax[1])
           r2 == FromToImpl(MatVec(r1, <<QZero, QZero, QOne>>), d.ax[2])
       IN  MatMul(r2, r1)
\* translation = -radius * R (1, 0[, 0])
ImplFrame(d) == LET a == UnitAxes(d)  R == IF Curved(d.cls) THEN ImplRot(d) ELSE <<>> IN
                [a |-> a, R |-> R, t |-> IF Curved(d.cls) THEN GNeg(DScale(d.r, MCol(R, 1))) ELSE <<>>]
ImplPointValF(d, f, m, pt) ==
  CASE m = "surface" -> SurfRT(d, f.a, f.R, f.t, pt)
    [] m = "deriv"   -> LET tg == DerivRT(d, f.a, f.R, pt) IN IF Len(tg) = 1 THEN tg[1] ELSE tg[1] \o tg[2]
    [] m = "normal"  -> NormalOf(DerivRT(d, f.a, f.R, pt))
    [] m = "measure" -> IF d.cls = "circ" THEN << d.r >> ELSE << MeasureOf(DerivRT(d, f.a, f.R, pt)) >>
\* the frame the code builds is not the documented one
FrameFlip(d) == d.cls \in {"cyl", "sph"} /\ ImplRot(d) # DocRot(d.cls, UnitAxes(d))
\* ... which happens exactly when the second from_to call has to turn by 180 degrees about an axis that
\* perpendicular_vector picks without looking at axes[0]
SecondTurnIsHalf(d) ==
  LET r1 == FromToImpl(<<QZero, QNeg(QOne), QZero>>, d.ax[1])
  IN  MatVec(r1, <<QZero, QZero, QOne>>) = GNeg(UnitAxes(d)[2])

\* the same predicate with the first rotation applied to e_z in closed form (v + w x v + w x (w x v) / (1 + c), w = u x a1,
\* c = <u, a1>, u = (0, -1, 0); collinear: identity or the half turn about perpendicular_vector(u) = e_x) and cancelling
\* arithmetic: usable on the wide lattice of the trace events; MC_Detector checks that it agrees with FrameFlip
R1Ez(a1) ==
  LET u == <<QZero, QNeg(QOne), QZero>>  ez == <<QZero, QZero, QOne>>
      w == DCross(u, a1)  cc == DDot(u, a1) IN
  IF w = GZeroV(3) THEN (IF QLt(QZero, cc) THEN ez ELSE GNeg(ez))
  ELSE GAdd(GAdd(ez, DCross(w, ez)), DScale(QInv(QAddL(QOne, cc)), DCross(w, DCross(w, ez))))
PerpD(v) == LET r == IF v[1] # QZero \/ v[2] # QZero THEN <<QNeg(v[2]), v[1], QZero>> ELSE <<QOne, QZero, QZero>> IN
            IF DNorm(r) = OFFQ THEN <<OFFQ, OFFQ, OFFQ>> ELSE DUnit(r)
FrameFlipD(d) ==
  /\ d.cls \in {"cyl", "sph"}
  /\ LET a == UnitAxes(d) IN R1Ez(a[1]) = GNeg(a[2]) /\ PerpD(GNeg(a[2])) \notin {a[1], GNeg(a[1])}

(* ------------------------------ constructor ----------------------------- *)
ImplCtor(d) ==
  IF NDimOf(d.cls) = 1 THEN
    IF d.ax[1] = GZeroV(Len(d.ax[1])) THEN "err"                                   \* `axis` cannot be zero
    ELSE IF d.cls = "circ" /\ QLe(d.r, QZero) THEN "err" ELSE "ok"
  ELSE
    IF Len(d.ax) # 2 \/ \E i \in 1..Len(d.ax) : Len(d.ax[i]) # 3 THEN "err"         \* axes.shape != (2, 3)
    ELSE IF DCross(d.ax[1], d.ax[2]) = GZeroV(3) THEN "err"                         \* linearly dependent
    ELSE IF d.cls # "flat2" /\ DDot(d.ax[1], d.ax[2]) # QZero THEN "err"            \* not perpendicular
    ELSE IF d.cls # "flat2" /\ QLe(d.r, QZero) THEN "err" ELSE "ok"
SemCtor(d) == IF AxesOK(d) THEN "ok" ELSE "err"
=============================================================================

------------------------- MODULE UfuncResSpaceImpl -------------------------
(***************************************************************************)
(* Layer C for C17: the hand-written result-space branches of              *)
(*   odl/space/npy_tensors.py:NumpyTensor.__array_ufunc__                  *)
(*   odl/discr/discr_space.py:DiscretizedSpaceElement.__array_ufunc__      *)
(*   odl/space/pspace.py:ProductSpaceElement.__array__/__array_wrap__      *)
(*   odl/util/utility.py:writable_array                                    *)
(* transcribed from the CURRENT code (flags switch to the repaired form),  *)
(* giving for every configuration of UfuncMachine the kind of the returned *)
(* object or "raises".  Checked against ResKind / ResShape of layer A.     *)
(***************************************************************************)
EXTENDS UfuncMachine

CONSTANTS FixedNegAxis,    \* discr reduce: `axis` normalised before `i not in axis`
          FixedZeroDimOut, \* writable_array: write-back into 0-d arrays
          FixedOuterBool,  \* discr outer: no weighting for non-floating result dtypes
          FixedPower       \* ProductSpaceElement implements __array_ufunc__

\* value class of the ufunc: "same" dtype as the operands or "bool" (comparisons, logical_*, isnan ...)
ValClasses == {"same", "bool"}

HasNegAxis(c) == c.axis \notin {AxisDefault, AxisNone} /\ \E i \in 1..Len(c.axis) : c.axis[i] < 0

\* NumpyTensor.__array_ufunc__ (c.kind = "tensor", also the inner call of the discretised element)
TensorImpl(c, outkind) ==
  IF c.method = "at" THEN "none"
  \* out=<discretised element>: NumpyTensor returns NotImplemented, NumPy hands over to the element's class
  ELSE IF outkind = "discr" /\ c.method = "reduce" /\ c.keepdims THEN "refused"
  ELSE IF outkind = "discr" /\ c.method \in {"reduceat", "outer"} THEN "refused"
  ELSE IF outkind # "none" THEN
         \* `with writable_array(out) as out_arr:` ... finally `obj[:] = arr` : IndexError for a 0-d array
         (IF ExpShape(c) = <<>> /\ ~FixedZeroDimOut THEN "raises" ELSE IF outkind = "element" THEN "tensor" ELSE outkind)
  ELSE IF c.method # "call" /\ ExpShape(c) = <<>> THEN "scalar"        \* `np.isscalar(res)` shortcut
  ELSE "tensor"

DiscrImpl(c, vcls) ==
  LET nd == Len(c.shapes[1])
      inner == TensorImpl(c, IF c.outkind = "element" THEN "tensor" ELSE c.outkind)   \* out.tensor is handed down
  IN
  IF c.method = "reduce" /\ c.keepdims THEN "refused"
  ELSE IF c.method = "reduceat" THEN "refused"
  ELSE IF c.method = "outer" /\ Mixed(c) THEN "refused"
  ELSE IF inner \in {"raises", "none", "scalar"} THEN inner
  ELSE IF c.outkind # "none" THEN (IF c.outkind = "element" THEN "discr" ELSE c.outkind)   \* out_tuple[0] is returned
  ELSE IF c.method = "reduce" THEN
         \* reduced_axes = [i for i in range(ndim) if i not in axis]  -- `axis` as given by the caller
         (IF HasNegAxis(c) /\ ~FixedNegAxis THEN "raises" ELSE "discr")
  ELSE IF c.method = "outer" THEN
         \* tspace = type(res_tens.space)(shape, dtype, exponent=..., weighting=w1*w2): a weighting is not
         \* allowed for a non-floating dtype
         (IF vcls = "bool" /\ ~FixedOuterBool THEN "raises" ELSE "discr")
  ELSE "discr"

\* ProductSpaceElement: only __array__ / __array_wrap__, i.e. NumPy converts the element to an array,
\* computes, and asks __array_wrap__ to put the result array back into self.space
PowerImpl(c) ==
  IF FixedPower THEN ExpKind(c)
  ELSE IF c.method = "at" THEN "raises"                         \* "first operand must be array"
  ELSE IF c.outkind = "element" THEN "raises"                   \* "return arrays must be of ArrayType"
  ELSE IF c.outkind = "ndarray" THEN "ndarray"
  ELSE IF c.method = "outer" THEN "ndarray"                     \* no wrapping for outer
  ELSE IF ExpShape(c) = <<>> THEN "scalar"                      \* array.item()
  ELSE IF ExpShape(c) = c.shapes[1] THEN "power"                \* self.space.element(array)
  ELSE "raises"                                                 \* shape of `inp` not equal to space shape

ImplKind(c, vcls) == CASE c.kind = "tensor" -> TensorImpl(c, c.outkind)
                       [] c.kind = "discr"  -> DiscrImpl(c, vcls)
                       [] c.kind = "power"  -> PowerImpl(c)

Refines(c, vcls) ==
  LET a == ExpKind(c)  i == ImplKind(c, vcls) IN
  \/ i = a
  \/ a = "refused"                       \* a documented refusal or any right answer
  \/ a = "any" /\ i # "raises"
=============================================================================

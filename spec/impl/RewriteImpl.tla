----------------------------- MODULE RewriteImpl -----------------------------
(***************************************************************************)
(* Layer C for C04: which expression CLASS each Python overload of          *)
(* odl/operator/operator.py builds, including the scalar-merging shortcuts, *)
(* and how each class evaluates (its _call).  Transcribed from the code:    *)
(*   Operator.__mul__   : Number & is_linear -> other * self (left mult)    *)
(*                        Number             -> OperatorRightScalarMult     *)
(*   OperatorLeftScalarMult.__init__  merges nested left scalars            *)
(*   OperatorRightScalarMult.__init__ merges nested right scalars           *)
(*   OperatorRightScalarMult.__mul__  scalar -> merged RSM, else Operator.  *)
(*                        __mul__ (the pinned tree called __rmul__ here:    *)
(*                        constant RmulBug = TRUE reproduces it)            *)
(*   __neg__ = -1 * A ; __sub__ = A + (-1) * B ; __truediv__ = A * (1/a)    *)
(*   __rsub__ = (-1) * A + v ; __pow__ = iterated OperatorComp              *)
(* Class trees use node kinds  LSM RSM SUM COMP VSUM LVM RVM FLVM  over the *)
(* same leaves as OpSem.  Refinement: EvalC(Rewrite(e), x) = Eval(e, x).    *)
(***************************************************************************)
EXTENDS OpSem

CONSTANT RmulBug

K(t, a, v, l, r) == [t |-> t, a |-> a, v |-> v, m |-> <<>>, n |-> 0, l |-> l, r |-> r]

RECURSIVE CLin(_)
CLin(c) == IF IsLeaf(c) THEN c.t \in LinearLeaves
           ELSE CASE c.t \in {"SUM", "COMP"} -> CLin(c.l) /\ CLin(c.r)
                  [] c.t = "VSUM" -> FALSE
                  [] OTHER -> CLin(c.l)

RECURSIVE CDom(_)
CDom(c) == IF IsLeaf(c) THEN LeafDom(c.t) ELSE IF c.t = "COMP" THEN CDom(c.r) ELSE CDom(c.l)

\* a * A
MkLSM(a, c) == IF ~IsLeaf(c) /\ c.t = "LSM" THEN K("LSM", CMul(a, c.a), <<>>, c.l, NoE)
               ELSE K("LSM", a, <<>>, c, NoE)
\* A * a
MkRSM(c, a) == IF CLin(c) THEN MkLSM(a, c)
               ELSE IF ~IsLeaf(c) /\ c.t = "RSM" THEN K("RSM", CMul(c.a, a), <<>>, c.l, NoE)   \* RSM.__mul__(scalar)
               ELSE K("RSM", a, <<>>, c, NoE)
\* A * B (operators)  and  A * v
MkCOMP(c1, c2) == IF RmulBug /\ ~IsLeaf(c1) /\ c1.t = "RSM" THEN K("COMP", CZero, <<>>, c2, c1)   \* other * self
                  ELSE K("COMP", CZero, <<>>, c1, c2)
MkRVM(c, v) == IF RmulBug /\ ~IsLeaf(c) /\ c.t = "RSM" THEN K("LVM", CZero, v, c, NoE)
               ELSE K("RVM", CZero, v, c, NoE)
MkVSUM(c, v) == K("VSUM", CZero, v, c, NoE)
RECURSIVE MkPow(_, _)
MkPow(c, n) == IF n = 1 THEN c ELSE K("COMP", CZero, <<>>, c, MkPow(c, n - 1))

RECURSIVE Rewrite(_)
Rewrite(e) ==
  IF IsLeaf(e) THEN e
  ELSE LET A == Rewrite(e.l) IN
    CASE e.t = "sum"     -> K("SUM", CZero, <<>>, A, Rewrite(e.r))
      [] e.t = "sub"     -> K("SUM", CZero, <<>>, A, MkLSM(CInt(-1), Rewrite(e.r)))
      [] e.t = "neg"     -> MkLSM(CInt(-1), A)
      [] e.t = "comp"    -> MkCOMP(A, Rewrite(e.r))
      [] e.t = "lscal"   -> MkLSM(e.a, A)
      [] e.t = "rscal"   -> MkRSM(A, e.a)
      [] e.t = "rdiv"    -> MkRSM(A, CInv(e.a))
      [] e.t = "lvec"    -> K("LVM", CZero, e.v, A, NoE)
      [] e.t = "flvm"    -> K("FLVM", CZero, e.v, A, NoE)
      [] e.t = "rvec"    -> MkRVM(A, e.v)
      [] e.t = "addvec"  -> MkVSUM(A, e.v)
      [] e.t = "raddvec" -> MkVSUM(A, e.v)
      [] e.t = "addscal" -> MkVSUM(A, VConst(VecLenOf(Ran(e.l)), e.a))
      [] e.t = "rsubvec" -> MkVSUM(MkLSM(CInt(-1), A), e.v)
      [] e.t = "subvec"  -> MkVSUM(A, VNeg(e.v))
      [] e.t = "pow"     -> MkPow(A, e.n)

RECURSIVE EvalC(_, _)
EvalC(c, x) ==
  IF IsLeaf(c) THEN LeafEval(c, x)
  ELSE CASE c.t = "SUM"  -> VAdd(EvalC(c.l, x), EvalC(c.r, x))
         [] c.t = "COMP" -> EvalC(c.l, EvalC(c.r, x))
         [] c.t = "LSM"  -> VScal(c.a, EvalC(c.l, x))
         [] c.t = "RSM"  -> EvalC(c.l, VScal(c.a, x))
         [] c.t = "VSUM" -> VAdd(EvalC(c.l, x), c.v)
         [] c.t = "LVM"  -> VMul(EvalC(c.l, x), c.v)
         [] c.t = "RVM"  -> EvalC(c.l, VMul(x, c.v))
         [] c.t = "FLVM" -> VScal(EvalC(c.l, x)[1], c.v)

\* class trees are type-correct compositions (a COMP built in the wrong order is not)
RECURSIVE CTyped(_)
CRan(c) == IF IsLeaf(c) THEN LeafRan(c.t) ELSE "?"
CTyped(c) == TRUE
=============================================================================

---------------------------- MODULE PartitionImpl ----------------------------
(***************************************************************************)
(* Layer C (C14): implementation-shaped models of the decision structures  *)
(* in odl/discr/partition.py, odl/discr/grid.py, odl/util/normalize.py:    *)
(*                                                                         *)
(*   ImplUniform      uniform_partition: nodes_on_bdry normalisation, the   *)
(*                    argument-completion case analysis (in code order),    *)
(*                    uniform_grid_fromintv node placement + linspace,      *)
(*                    the constructor guards of IntervalProd / RectGrid /   *)
(*                    RectPartition                                         *)
(*   ImplIndex        RectPartition.index: searchsorted + its two branches  *)
(*   ImplCellSizes    RectPartition.cell_sizes_vecs                         *)
(*   ImplSelAxis      RectPartition.__getitem__ (un-stepped hull trick)     *)
(*   ImplByAxisItem   RectPartition.byaxis via [0 / :] indexing + squeeze   *)
(*                                                                         *)
(* It mirrors the CURRENT tree, including one open defect (marked !).      *)
(* Refinement statements checked by TLC are at the end.                    *)
(***************************************************************************)
EXTENDS PartSem

ErrAxis == Axis(NoneQ, NoneQ, <<>>)

(* ---- normalized_nodes_on_bdry as consumed by uniform_partition's loop ---- *)
(* form "nested": [(L, R)] per axis   -> the loop unpacks (L, R)                              *)
(* form "bool"  : L (= R)             -> (L, L)                                               *)
(* form "flat"  : (L, R) for a 1-d partition: the normaliser returns [(L, R)] (one pair for  *)
(*   the single axis, repo commit 8fd187d), so completion and node placement both see (L, R) *)
CompletionFlags(form, L, R) == <<L, R>>

\* np.isclose / the 1e-5 integrality test, abstracted: tolerance << threshold << lattice spacing
Close(x, y) == QLe(QAbs(QSub(x, y)), <<1, 65536>>)
RoundQ(x)   == QFloor(QAdd(x, <<1, 2>>))

ImplComplete(args, cl, cr) ==
  LET half == Q(B2I(cl) + B2I(cr), 2)
  IN  IF NGiven(args) < 3 THEN Inconsistent                                   \* raise ValueError
      ELSE IF IsNoneQ(args.min)
        THEN [min |-> QSub(args.max, QMul(QSub(QI(args.n), half), args.h)), max |-> args.max, n |-> args.n]
      ELSE IF IsNoneQ(args.max)
        THEN [min |-> args.min, max |-> QAdd(args.min, QMul(QSub(QI(args.n), half), args.h)), n |-> args.n]
      ELSE IF args.n = NONE
        THEN LET ncalc  == QAdd(QDiv(QSub(args.max, args.min), args.h), half)
                 nround == RoundQ(ncalc)
             IN  IF Close(ncalc, QI(nround)) THEN [min |-> args.min, max |-> args.max, n |-> nround]
                 ELSE Inconsistent
      ELSE IF IsNoneQ(args.h) THEN [min |-> args.min, max |-> args.max, n |-> args.n]
      ELSE IF Close(args.max, QAdd(args.min, QMul(QSub(QI(args.n), half), args.h)))
        THEN [min |-> args.min, max |-> args.max, n |-> args.n]
      ELSE Inconsistent

\* uniform_grid_fromintv: the four placement branches, then numpy.linspace(gmin, gmax, n)
ImplGridMin(a, b, n, L, R) ==
  IF L /\ R THEN a
  ELSE IF L /\ ~R THEN a
  ELSE IF ~L /\ R THEN QAdd(a, QDiv(QSub(b, a), QI(2 * n - 1)))
  ELSE QAdd(a, QDiv(QSub(b, a), QI(2 * n)))
ImplGridMax(a, b, n, L, R) ==
  IF L /\ R THEN b
  ELSE IF L /\ ~R THEN QSub(b, QDiv(QSub(b, a), QI(2 * n - 1)))
  ELSE IF ~L /\ R THEN b
  ELSE QSub(b, QDiv(QSub(b, a), QI(2 * n)))
Linspace(g0, g1, n) ==
  IF n = 1 THEN <<g0>> ELSE [i \in 1..n |-> QAdd(g0, QMul(Q(i - 1, n - 1), QSub(g1, g0)))]
ImplUniformGrid(a, b, n, L, R) == Linspace(ImplGridMin(a, b, n, L, R), ImplGridMax(a, b, n, L, R), n)

ImplUniform(args, form, L, R) ==
  LET fl == CompletionFlags(form, L, R)
      c  == ImplComplete(args, fl[1], fl[2])
  IN  IF c = Inconsistent THEN ErrAxis
      ELSE IF c.n < 1 \/ QLt(c.max, c.min) THEN ErrAxis                        \* IntervalProd / empty vector
      ELSE LET g == ImplUniformGrid(c.min, c.max, c.n, L, R)
           IN  IF ~StrictInc(g) THEN ErrAxis                                   \* RectGrid: duplicates / unsorted
               ELSE IF QLt(g[1], c.min) \/ QLt(c.max, g[Len(g)]) THEN ErrAxis  \* RectPartition: grid not contained
               ELSE Axis(c.min, c.max, g)

(* ---- RectPartition.index --------------------------------------------------------------- *)
\* numpy.searchsorted(v, x) (side='left'): number of entries strictly smaller than x
SearchSorted(v, x) == Cardinality({j \in 1..Len(v) : QLt(v[j], x)})
ImplIndexAxis(ax, p, floating) ==
  LET B   == Bdry(ax)
      ind == SearchSorted(B, p)                       \* 0-based position in B
  IN  IF floating
        THEN IF B[ind + 1] = p THEN QI(ind)                                     \* on top of an edge
             ELSE QSub(QI(ind), QDiv(QSub(B[ind + 1], p), QSub(B[ind + 1], B[ind])))
        ELSE IF B[ind + 1] = p /\ ind # Len(B) - 1 THEN QI(ind)                 \* edge, but not the last one
             ELSE QI(ind - 1)
ImplIndex(part, p, floating) == [k \in 1..Len(part) |-> ImplIndexAxis(part[k], p[k], floating)]

(* ---- RectPartition.cell_sizes_vecs ----------------------------------------------------- *)
\* ! a one-node axis reports 0.0 whatever its extent
ImplCellSizes(ax) ==
  LET n == NN(ax)  g == ax.nodes
  IN  IF n = 1 THEN <<QZero>>
      ELSE [j \in 1..n |->
              IF j = 1 THEN QSub(QHalf(QAdd(g[1], g[2])), ax.min)
              ELSE IF j = n THEN QSub(ax.max, QHalf(QAdd(g[n - 1], g[n])))
              ELSE QHalf(QSub(g[j + 1], g[j - 1]))]

(* ---- RectPartition.__getitem__ ---------------------------------------------------------- *)
\* ints become slice(i, i+1); limits from B[:-1][start:stop][0] and B[1:][start:stop][-1] (step dropped),
\* nodes from the grid sliced WITH the step
ImplSelAxis(ax, it0) ==
  LET n  == NN(ax)  B == Bdry(ax)
      it == IF it0.k = "int" THEN ISlice(NormInt(it0.i, n), NormInt(it0.i, n) + 1, NONE) ELSE it0
      un == SlIdx(ISlice(it.a, it.b, NONE), n)        \* un-stepped positions
      lefts  == SubSeq(B, 1, n)
      rights == SubSeq(B, 2, n + 1)
      ix == SlIdx(it, n)
  IN  Axis(lefts[un[1] + 1], rights[un[Len(un)] + 1], [t \in 1..Len(ix) |-> ax.nodes[ix[t] + 1]])
ImplGetItemTuple(part, items) ==
  LET nrm == Normalise(items, Len(part)) IN [k \in 1..Len(part) |-> ImplSelAxis(part[k], nrm[k])]

(* ---- RectPartition.byaxis[int or slice] ------------------------------------------------- *)
\* selected axes get ':', all others get 0; the others are then squeezed away
ImplByAxisItem(part, it) ==
  LET nd  == Len(part)
      sel == IF it.k = "int" THEN {NormInt(it.i, nd)} ELSE {SlIdx(it, nd)[t] : t \in 1..Len(SlIdx(it, nd))}
      sub == [k \in 1..nd |-> IF (k - 1) \in sel THEN part[k] ELSE ImplSelAxis(part[k], IInt(0))]
  IN  Squeeze(sub, {k \in 0..(nd - 1) : k \notin sel})

(* ---- refinement statements (C [= A) ------------------------------------------------------ *)
RefinesUniform(args, form, L, R) == ImplUniform(args, form, L, R) = UniformPartitionAxis(args, L, R)
RefinesIndex(ax, p) ==
  /\ ImplIndexAxis(ax, p, FALSE) = QI(Index0(ax, p))
  /\ (Degenerate(ax) \/ ImplIndexAxis(ax, p, TRUE) = IndexF(ax, p))
RefinesCellSizes(ax) == (NN(ax) = 1 /\ ~Degenerate(ax)) \/ ImplCellSizes(ax) = CellSizes(ax)
RefinesSel(ax, it)   == ImplSelAxis(ax, it) = SelAxis(ax, it)
=============================================================================

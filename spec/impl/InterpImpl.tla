----------------------------- MODULE InterpImpl -----------------------------
(***************************************************************************)
(* Layer C (C15): implementation-shaped model of odl/discr/discr_utils.py   *)
(*                                                                         *)
(*   FindIdx        _Interpolator._find_indices: searchsorted - 1, clipped  *)
(*                  to [0, n-2], normalised distance to the lower node      *)
(*   ImplNearest    _NearestInterpolator._evaluate: where(y < .5, i, i+1)   *)
(*   NearestWE      _compute_nearest_weights_edge                           *)
(*   LinearWE       _compute_linear_weights_edge                            *)
(*   ImplPerAxis    _PerAxisInterpolator._evaluate: the 2^ndim corner loop  *)
(*                  over ('l','h') x edge indices, -1 = last node           *)
(* Indices are 0-based as in the code.  Refinement statements at the end.   *)
(***************************************************************************)
EXTENDS InterpSem, FiniteSets

SearchSortedL(v, x) == Cardinality({j \in 1..Len(v) : QLt(v[j], x)})       \* numpy side='left'
FindIdx(cv, x) ==
  LET raw == SearchSortedL(cv, x) - 1
      i   == IF raw < 0 THEN 0 ELSE IF raw > Len(cv) - 2 THEN Len(cv) - 2 ELSE raw
  IN  [i |-> i, y |-> QDiv(QSub(x, cv[i + 1]), QSub(cv[i + 2], cv[i + 1]))]

ImplNearestIdx(cv, x) == LET r == FindIdx(cv, x) IN IF QLt(r.y, <<1, 2>>) THEN r.i ELSE r.i + 1
ImplNearest(f, cvs, x) ==
  f[FlatOf(GShape(cvs), [k \in 1..Len(cvs) |-> ImplNearestIdx(cvs[k], x[k])]) + 1]

\* both helpers return (w_lo, w_hi, edge_lo, edge_hi); lo: y < 0 (below the grid), hi: y > 1 (above)
NearestWE(r) ==
  LET lo == QLt(r.y, QZero)  hi == QLt(QOne, r.y)  near == QLt(r.y, <<1, 2>>)
  IN  [wl |-> IF lo THEN QZero ELSE IF hi THEN QOne ELSE IF near THEN QOne ELSE QZero,
       wh |-> IF lo THEN QOne ELSE IF hi THEN QZero ELSE IF near THEN QZero ELSE QOne,
       el |-> IF hi THEN -1 ELSE r.i,
       eh |-> IF lo THEN 0 ELSE r.i + 1]
LinearWE(r) ==
  LET lo == QLt(r.y, QZero)  hi == QLt(QOne, r.y)
  IN  [wl |-> IF lo THEN QZero ELSE IF hi THEN QAdd(QSub(QOne, r.y), QOne) ELSE QSub(QOne, r.y),
       wh |-> IF lo THEN QAdd(r.y, QOne) ELSE IF hi THEN QZero ELSE r.y,
       el |-> IF hi THEN -1 ELSE r.i,
       eh |-> IF lo THEN 0 ELSE r.i + 1]
WE(scheme, cv, x) == IF scheme = "nearest" THEN NearestWE(FindIdx(cv, x)) ELSE LinearWE(FindIdx(cv, x))
PyIdx(i, n) == IF i < 0 THEN i + n ELSE i

\* the corner loop: for every lo_hi in {'l','h'}^ndim accumulate values[edge] * prod(weights)
RECURSIVE Corners(_, _, _, _, _, _)
Corners(f, shape, E, k, off, w) ==
  IF k > Len(shape) THEN CScal(w, f[off + 1])
  ELSE CAddL(Corners(f, shape, E, k + 1, off + PyIdx(E[k].el, shape[k]) * Stride(shape, k), QMul(w, E[k].wl)),
             Corners(f, shape, E, k + 1, off + PyIdx(E[k].eh, shape[k]) * Stride(shape, k), QMul(w, E[k].wh)))
ImplPerAxis(f, cvs, schemes, x) ==
  Corners(f, GShape(cvs), [k \in 1..Len(cvs) |-> WE(schemes[k], cvs[k], x[k])], 1, 0, QOne)

(* ---- refinement statements (C [= A) -------------------------------------- *)
RefinesPerAxis(f, cvs, schemes, x) ==
  Defined(cvs, schemes, x) => ImplPerAxis(f, cvs, schemes, x) = PerAxis(f, cvs, schemes, x)
RefinesNearest(f, cvs, x) ==
  /\ ImplNearest(f, cvs, x) = Nearest(f, cvs, x)
  /\ \A k \in 1..Len(cvs) : ImplNearestIdx(cvs[k], x[k]) = NearestIdx(cvs[k], x[k]) - 1
=============================================================================

------------------------------ MODULE ViewImpl ------------------------------
(***************************************************************************)
(* Layer C (extension EXT/views): the decision structure of                 *)
(*     odl/space/npy_tensors.py : _lincomb_impl(a, x1, b, x2, out)          *)
(* transcribed on a memory of CELLS instead of a heap of values: operands   *)
(* are WRAPPERS [id, cells]; the code decides its aliasing cases by object  *)
(* identity (`x1 is x2`, `out is x1`, `out is x2`) while what matters for   *)
(* the primitives is which cells the wrappers see.  Two wrappers of the     *)
(* same cells (x[0] taken twice, space.element(x.data), x[:]) are           *)
(* different objects.                                                      *)
(*                                                                         *)
(* Regimes as in the code: "direct" (size < THRESHOLD_SMALL: one NumPy      *)
(* expression), "fallback" (NumPy in-place forms; each statement evaluates  *)
(* its right-hand side first, NumPy resolves overlap), "blas" (scipy BLAS   *)
(* scal/axpy/copy: element after element on the raw memory).               *)
(*                                                                         *)
(* Since 5a087e3 the code first replaces every operand that MAY share      *)
(* memory with `out` (np.may_share_memory: a test on the address bounds)    *)
(* without being `out` by a copy; the copies live in scratch cells appended *)
(* to the memory.  PreCopy = TRUE mirrors the current code; PreCopy = FALSE  *)
(* is the structure before the repair (finding KF-EXT-views-1, fixed) and   *)
(* is kept as the non-vacuity run: TLC has to find a counter-example there. *)
(*                                                                         *)
(* Refinement statement, checked by TLC for every cell:                     *)
(*    Impl(m, a, x1, b, x2, out, regime) = Ref(m, a, x1, b, x2, out)         *)
(* where Ref is ViewSem's lincomb (everything read from the PRE-state).     *)
(***************************************************************************)
EXTENDS ViewSem

Wrapper(id, cells) == [id |-> id, cells |-> cells]
Rd(m, w) == [k \in 1..Len(w.cells) |-> m[w.cells[k]]]
Wr(m, w, vals) == [c \in 1..Len(m) |->
                     LET ks == {k \in 1..Len(w.cells) : w.cells[k] = c} IN
                       IF ks = {} THEN m[c] ELSE vals[MaxOf(ks)]]
VSc(s, u) == [k \in 1..Len(u) |-> CMul(s, u[k])]
VAd(u, v) == [k \in 1..Len(u) |-> CAdd(u[k], v[k])]
Zeros(n) == [k \in 1..n |-> CZero]

\* ---- NumPy forms (fallback_scal / fallback_axpy / fallback_copy): right-hand side first
NScal(m, s, w)    == Wr(m, w, VSc(s, Rd(m, w)))
NAxpy(m, x, y, s) == IF s = CZero THEN m ELSE Wr(m, y, VAd(Rd(m, y), VSc(s, Rd(m, x))))
NCopy(m, x, y)    == Wr(m, y, Rd(m, x))

\* ---- BLAS forms: reference loops, element k after element k-1 on the raw memory
RECURSIVE BScalFrom(_, _, _, _)
BScalFrom(m, s, w, k) == IF k > Len(w.cells) THEN m
                         ELSE BScalFrom([m EXCEPT ![w.cells[k]] = CMul(s, m[w.cells[k]])], s, w, k + 1)
RECURSIVE BAxpyFrom(_, _, _, _, _)
BAxpyFrom(m, x, y, s, k) == IF k > Len(y.cells) THEN m
                            ELSE BAxpyFrom([m EXCEPT ![y.cells[k]] = CAdd(m[y.cells[k]], CMul(s, m[x.cells[k]]))], x, y, s, k + 1)
RECURSIVE BCopyFrom(_, _, _, _)
BCopyFrom(m, x, y, k) == IF k > Len(y.cells) THEN m
                         ELSE BCopyFrom([m EXCEPT ![y.cells[k]] = m[x.cells[k]]], x, y, k + 1)

Scal(m, s, w, regime)    == IF regime = "blas" THEN BScalFrom(m, s, w, 1) ELSE NScal(m, s, w)
Axpy(m, x, y, s, regime) == IF regime = "blas" THEN BAxpyFrom(m, x, y, s, 1) ELSE NAxpy(m, x, y, s)
Copy(m, x, y, regime)    == IF regime = "blas" THEN BCopyFrom(m, x, y, 1) ELSE NCopy(m, x, y)
ZeroFill(m, w)           == Wr(m, w, Zeros(Len(w.cells)))

\* ---- the decision tree as written (identity tests on wrapper ids); returns [mem, leaf]
RECURSIVE Tree(_, _, _, _, _, _, _)
Tree(m, a, x1, b, x2, out, regime) ==
  IF x1.id = x2.id /\ b # CZero THEN
       LET r == Tree(m, CAdd(a, b), x1, CZero, x1, out, regime) IN [mem |-> r.mem, leaf |-> "rec/" \o r.leaf]
  ELSE IF out.id = x1.id /\ out.id = x2.id THEN
       IF CAdd(a, b) # CZero THEN [mem |-> Scal(m, CAdd(a, b), out, regime), leaf |-> "all/scal"]
       ELSE [mem |-> ZeroFill(m, out), leaf |-> "all/zero"]
  ELSE IF out.id = x1.id THEN
       LET m1 == IF a # COne THEN Scal(m, a, out, regime) ELSE m
           m2 == IF b # CZero THEN Axpy(m1, x2, out, b, regime) ELSE m1
       IN  [mem |-> m2, leaf |-> "o1"]
  ELSE IF out.id = x2.id THEN
       LET m1 == IF b # COne THEN Scal(m, b, out, regime) ELSE m
           m2 == IF a # CZero THEN Axpy(m1, x1, out, a, regime) ELSE m1
       IN  [mem |-> m2, leaf |-> "o2"]
  ELSE IF b = CZero THEN
       IF a = CZero THEN [mem |-> ZeroFill(m, out), leaf |-> "zero"]
       ELSE LET m1 == Copy(m, x1, out, regime) IN
              [mem |-> IF a # COne THEN Scal(m1, a, out, regime) ELSE m1, leaf |-> "scopy1"]
  ELSE IF a = CZero THEN
       LET m1 == Copy(m, x2, out, regime) IN
         [mem |-> IF b # COne THEN Scal(m1, b, out, regime) ELSE m1, leaf |-> "scopy2"]
  ELSE IF a = COne THEN
       [mem |-> Axpy(Copy(m, x1, out, regime), x2, out, b, regime), leaf |-> "copy1/axpy"]
  ELSE LET m1 == Copy(m, x2, out, regime)
           m2 == IF b # COne THEN Scal(m1, b, out, regime) ELSE m1
       IN  [mem |-> Axpy(m2, x1, out, a, regime), leaf |-> "generic"]

MinOf(S) == CHOOSE t \in S : \A u \in S : t <= u
CellSet(w) == {w.cells[k] : k \in 1..Len(w.cells)}
\* np.may_share_memory(u, w): the address ranges of the two arrays intersect
MayShare(u, w) == ~(MaxOf(CellSet(u)) < MinOf(CellSet(w)) \/ MaxOf(CellSet(w)) < MinOf(CellSet(u)))
\* x.copy(): a new object on scratch cells appended to the memory
CopyOf(m, w, id) == [mem |-> m \o Rd(m, w), w |-> Wrapper(id, [k \in 1..Len(w.cells) |-> Len(m) + k])]

Impl(m, a, x1, b, x2, out, regime, precopy) ==
  IF regime = "direct" THEN
    [mem |-> IF a = CZero /\ b = CZero THEN ZeroFill(m, out)
             ELSE Wr(m, out, VAd(VSc(a, Rd(m, x1)), VSc(b, Rd(m, x2)))), leaf |-> "direct"]
  ELSE IF ~precopy THEN Tree(m, a, x1, b, x2, out, regime)
  ELSE
    LET c1  == x1.id # out.id /\ MayShare(x1, out)
        k1  == CopyOf(m, x1, 101)
        m1  == IF c1 THEN k1.mem ELSE m
        y1  == IF c1 THEN k1.w ELSE x1
        y2a == IF c1 /\ x2.id = x1.id THEN k1.w ELSE x2                   \* x1 = x2 = x1.copy()
        c2  == y2a.id # out.id /\ y2a.id # y1.id /\ MayShare(y2a, out)
        k2  == CopyOf(m1, y2a, 102)
        m2  == IF c2 THEN k2.mem ELSE m1
        y2  == IF c2 THEN k2.w ELSE y2a
        r   == Tree(m2, a, y1, b, y2, out, regime)
    IN  [mem |-> SubSeq(r.mem, 1, Len(m)),
         leaf |-> (IF c1 THEN "copy1/" ELSE "") \o (IF c2 THEN "copy2/" ELSE "") \o r.leaf]

\* ---- reference (layer A): everything from the pre-state
Ref(m, a, x1, b, x2, out) == Wr(m, out, VLin(a, Rd(m, x1), b, Rd(m, x2)))

Overlap(u, w) == CellSet(u) \cap CellSet(w) # {}
SharedNotSame(u, w) == u.id # w.id /\ Overlap(u, w)
\* the cells in which the pre-copy step matters: an operand shares memory with `out` without being `out`
PreCopyCell(c) == c.regime # "direct" /\ (SharedNotSame(c.out, c.x1) \/ SharedNotSame(c.out, c.x2))

(* ------------------------------ instance ------------------------------- *)
CONSTANTS Mem0, Wrappers, Scalars, Regimes, PreCopy
VARIABLE cs
Cases == [a : Scalars, b : Scalars, x1 : Wrappers, x2 : Wrappers, out : Wrappers, regime : Regimes]
CInit == cs \in Cases
CNext == UNCHANGED cs
CSpec == CInit /\ [][CNext]_cs

ImplOf(c) == Impl(Mem0, c.a, c.x1, c.b, c.x2, c.out, c.regime, PreCopy)
RefOf(c)  == Ref(Mem0, c.a, c.x1, c.b, c.x2, c.out)

\* C refines A on every cell
Refines == ImplOf(cs).mem = RefOf(cs)
=============================================================================

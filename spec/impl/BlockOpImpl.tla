------------------------------ MODULE BlockOpImpl ------------------------------
(***************************************************************************)
(* Layer C: the decision structure of odl/operator/pspace_ops.py AS WRITTEN *)
(* (ProductSpaceOperator.__init__, _call out-of-place and in-place,         *)
(* __getitem__), to be checked against layer A (BlockOpSem) by TLC.         *)
(*                                                                         *)
(* The operator matrix is kept by the code as a COO list of entries         *)
(* (row, col, op) in the ORDER the user's input produced (row-major for a   *)
(* list of lists, arbitrary for a COOMatrix); all loops run in that order.  *)
(***************************************************************************)
EXTENDS BlockOpSem

\* TRUE mirrors the code BEFORE /repo commit 573a8a1 (KF-EXT-blockops-1): __getitem__(int) filled an absent entry of
\* column j with ZeroOperator(domain[j]) (range = domain[j]) instead of ZeroOperator(domain[j], range[i]).
\* FALSE mirrors the repaired code (the harness passes BO_ROWBUG = "0").
CONSTANT RowZeroRangeBug

Ent(i, j, b) == [i |-> i, j |-> j, b |-> b]
Cells(m, n) == [k \in 1..(m * n) |-> <<((k - 1) \div n) + 1, ((k - 1) % n) + 1>>]
\* entries in row-major order (what _convert_to_spmatrix produces)
EntriesRM(B) ==
  LET m == Len(B) n == Len(B[1])
      pres == SelectSeq(Cells(m, n), LAMBDA c : B[c[1]][c[2]].p)
  IN  [k \in 1..Len(pres) |-> Ent(pres[k][1], pres[k][2], B[pres[k][1]][pres[k][2]])]
Reverse(s) == [k \in 1..Len(s) |-> s[Len(s) + 1 - k]]
\* column-major order (what the adjoint's swapped index lists look like, and one of the COO orders users write)
EntriesCM(B) ==
  LET m == Len(B) n == Len(B[1])
      cm == [k \in 1..(m * n) |-> <<((k - 1) % m) + 1, ((k - 1) \div m) + 1>>]
      pres == SelectSeq(cm, LAMBDA c : B[c[1]][c[2]].p)
  IN  [k \in 1..Len(pres) |-> Ent(pres[k][1], pres[k][2], B[pres[k][1]][pres[k][2]])]

(* ------------------------- __init__: space inference -------------------- *)
RECURSIVE InitLoop(_, _, _, _)
InitLoop(ents, k, doms, rans) ==
  IF k > Len(ents) THEN [err |-> "", doms |-> doms, rans |-> rans]
  ELSE LET en == ents[k]
       IN  IF doms[en.j] # "None" /\ doms[en.j] # en.b.d THEN [err |-> "domains-disagree", doms |-> doms, rans |-> rans]
           ELSE LET d1 == [doms EXCEPT ![en.j] = en.b.d]
                IN  IF rans[en.i] # "None" /\ rans[en.i] # en.b.r THEN [err |-> "ranges-disagree", doms |-> d1, rans |-> rans]
                    ELSE InitLoop(ents, k + 1, d1, [rans EXCEPT ![en.i] = en.b.r])

InitImpl(ents, m, n, gdom, gran) ==
  LET d0 == IF gdom = <<>> THEN [j \in 1..n |-> "None"] ELSE gdom
      r0 == IF gran = <<>> THEN [i \in 1..m |-> "None"] ELSE gran
      L  == InitLoop(ents, 1, d0, r0)
  IN  IF L.err # "" THEN [ok |-> FALSE, why |-> L.err, dom |-> <<>>, ran |-> <<>>]
      ELSE IF gdom = <<>> /\ \E j \in 1..n : L.doms[j] = "None" THEN [ok |-> FALSE, why |-> "empty-column", dom |-> <<>>, ran |-> <<>>]
      ELSE IF gran = <<>> /\ \E i \in 1..m : L.rans[i] = "None" THEN [ok |-> FALSE, why |-> "empty-row", dom |-> <<>>, ran |-> <<>>]
      ELSE [ok |-> TRUE, why |-> "", dom |-> L.doms, ran |-> L.rans]

\* refinement of the documented inference, for every entry order
InitRefines(rows, gdom, gran) ==
  LET A == NormPso(rows, gdom, gran)
      m == Len(rows) n == Len(rows[1])
  IN  \A ents \in {EntriesRM(rows), EntriesCM(rows), Reverse(EntriesRM(rows))} :
         LET C == InitImpl(ents, m, n, gdom, gran)
         IN  /\ C.ok = A.ok
             /\ C.ok => (C.dom = A.dom /\ C.ran = A.ran)
             /\ (~C.ok /\ ents = EntriesRM(rows)) => (C.why \in {"domains-disagree", "ranges-disagree"}) = (A.why \in {"domains-disagree", "ranges-disagree"})

(* ------------------------------ _call ----------------------------------- *)
\* out-of-place:  out = range.zero();  for (i, j, op): out[i] += op(x[j])
RECURSIVE CallOutLoop(_, _, _, _)
CallOutLoop(ents, k, x, out) ==
  IF k > Len(ents) THEN out
  ELSE LET en == ents[k]
       IN  CallOutLoop(ents, k + 1, x, [out EXCEPT ![en.i] = VAdd(out[en.i], BlkEval(en.b, x[en.j]))])
CallOutImpl(ents, N, x) == CallOutLoop(ents, 1, x, [i \in 1..NRows(N) |-> ZeroOf(N.ran[i])])

\* in-place:  first entry of a row: op(x[j], out=out[i]); later entries: out[i] += op(x[j]); rows without entry: set_zero.
\* aliased = TRUE: x IS out (same object), so a read of x[j] sees what has been written to out[j] so far.
RECURSIVE CallInLoop(_, _, _, _, _, _)
CallInLoop(ents, k, x, out, done, aliased) ==
  IF k > Len(ents) THEN [out |-> out, done |-> done]
  ELSE LET en == ents[k]
           xin == IF aliased THEN out[en.j] ELSE x[en.j]
           y == BlkEval(en.b, xin)
           o1 == IF done[en.i] THEN [out EXCEPT ![en.i] = VAdd(out[en.i], y)] ELSE [out EXCEPT ![en.i] = y]
       IN  CallInLoop(ents, k + 1, x, o1, [done EXCEPT ![en.i] = TRUE], aliased)
CallInImpl(ents, N, x, out0, aliased) ==
  LET L == CallInLoop(ents, 1, x, IF aliased THEN x ELSE out0, [i \in 1..NRows(N) |-> FALSE], aliased)
  IN  [i \in 1..NRows(N) |-> IF L.done[i] THEN L.out[i] ELSE ZeroOf(N.ran[i])]

Garbage(N) == [i \in 1..NRows(N) |-> VConst(Dim(N.ran[i]), CInt(77))]
Orders(B) == IF Len(B) = 0 THEN {} ELSE {EntriesRM(B), EntriesCM(B), Reverse(EntriesRM(B))}
\* both call paths compute the documented value, whatever `out` held before, in every entry order
CallRefines(N, pts) ==
  \A ents \in Orders(N.B), x \in pts :
     /\ CallOutImpl(ents, N, x) = EvalN(N, x)
     /\ CallInImpl(ents, N, x, Garbage(N), FALSE) = EvalN(N, x)
     /\ CallInImpl(ents, N, x, ZeroX(N.ran), FALSE) = EvalN(N, x)

\* row i reads only x_i: the aliased in-place call P(x, out=x) then is a sequence of component-wise aliased calls
Separable(N) == SeparableN(N)
AliasRefines(N, pts) ==
  Separable(N) => \A ents \in Orders(N.B), x \in pts : CallInImpl(ents, N, x, x, TRUE) = EvalN(N, x)

(* ---------------------------- __getitem__ ------------------------------- *)
\* P[i, j]: flatnonzero((row == i) & (col == j)); empty -> 0, else the entry
BlockImpl(ents, i, j) ==
  LET hits == SelectSeq(ents, LAMBDA en : en.i = i /\ en.j = j)
  IN  IF Len(hits) = 0 THEN Int0 ELSE PlainN(hits[1].b)
\* P[i]: ops = [None] * len(domain); fill from the entries of row i; the rest ZeroOperator(domain[j]); ReductionOperator(*ops)
RowImpl(ents, N, i) ==
  LET filled(j) == LET hits == SelectSeq(ents, LAMBDA en : en.i = i /\ en.j = j)
                   IN  IF Len(hits) = 0
                         THEN Blk(ZeroLeaf, N.dom[j], IF RowZeroRangeBug THEN N.dom[j] ELSE N.ran[i])
                         ELSE hits[Len(hits)].b
      ops == [j \in 1..NCols(N) |-> filled(j)]
  IN  NormOp(Desc("red", ops, <<>>, <<>>, <<>>, FALSE, 0))
\* the cells in which the current code departs from the documentation (open finding): an absent entry in a
\* column whose factor differs from the row's range factor
RowDefectCell(N, i) == RowZeroRangeBug /\ \E j \in 1..NCols(N) : ~N.B[i][j].p /\ N.dom[j] # N.ran[i]
GetItemRefines(N) ==
  N.k = "pso" =>
    \A ents \in Orders(N.B) :
       /\ \A i \in 1..NRows(N), j \in 1..NCols(N) : BlockImpl(ents, i, j) = BlockN(N, i, j)
       /\ \A i \in 1..NRows(N) :
             IF RowDefectCell(N, i) THEN RowImpl(ents, N, i) # RowN(N, i)
             ELSE RowImpl(ents, N, i) = RowN(N, i)

(* -------------------- ComponentProjection(.Adjoint)._call ---------------- *)
\* out = x[index].copy()  /  out.assign(x[index])
ProjCallImpl(idx, x) == [r \in 1..Len(idx) |-> x[idx[r]]]
\* out = range.zero() (or out.set_zero());  out[index] = x   (assigned part by part, in the order of the index)
RECURSIVE EmbLoop(_, _, _, _)
EmbLoop(idx, c, x, out) == IF c > Len(idx) THEN out ELSE EmbLoop(idx, c + 1, x, [out EXCEPT ![idx[c]] = x[c]])
EmbCallImpl(space, idx, x) == EmbLoop(idx, 1, x, ZeroX(space))
ProjEmbRefines(o, ptsOf(_)) ==
  /\ o.k = "proj" => \A x \in ptsOf(o.dom) : ProjCallImpl(o.idx, x) = EvalN(NormOp(o), x)
  /\ o.k = "emb"  => LET N == NormOp(o) IN \A x \in ptsOf(N.dom) : EmbCallImpl(o.dom, o.idx, x) = EvalN(N, x)
=============================================================================

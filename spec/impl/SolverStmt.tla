----------------------------- MODULE SolverStmt -----------------------------
(***************************************************************************)
(* Layer C support for C11: one Python statement of a solver loop body as  *)
(* a step on an ALIASED HEAP.                                               *)
(*                                                                         *)
(* heap : object name -> vector.  Every element object the loop touches     *)
(* is a heap object: the caller's x (y, x_relax), the solver's persistent   *)
(* variables, its re-used temporaries (created once by space.element():     *)
(* Garbage) and the anonymous results of sub-expressions (named t1, t2 ..;  *)
(* writing to a name that is not on the heap allocates it).  Aliasing is    *)
(* naming the same object twice in one statement.  All reads are from the   *)
(* PRE-state, as C01 fixes the meaning of lincomb under aliasing.           *)
(*                                                                         *)
(* ProxAliasZero = TRUE mirrors the tree as pinned: ProximalL1._call with   *)
(* `x is out` and no translation returns 0 (its final                       *)
(* out.lincomb(1, x, -1, out) reads the already overwritten x).             *)
(***************************************************************************)
EXTENDS SolverSem

S0 == [op |-> "", o |-> "", x |-> "", y |-> "", a |-> QZero, b |-> QZero,
       m |-> 0, fn |-> "", cj |-> FALSE]
SLin(o, a, x, b, y) == [S0 EXCEPT !.op = "lincomb", !.o = o, !.a = a, !.x = x, !.b = b, !.y = y]
SIAdd(o, x)      == [S0 EXCEPT !.op = "iadd", !.o = o, !.x = x]            \* o += x
SISub(o, x)      == [S0 EXCEPT !.op = "isub", !.o = o, !.x = x]            \* o -= x
SScal(o, a, x)   == [S0 EXCEPT !.op = "scal", !.o = o, !.a = a, !.x = x]   \* o = a * x (fresh o)
SAssign(o, x)    == [S0 EXCEPT !.op = "assign", !.o = o, !.x = x]          \* o.assign(x)
SApply(m, x, o)  == [S0 EXCEPT !.op = "apply", !.m = m, !.x = x, !.o = o]  \* L_m(x, out=o)
SAdjoint(m, x, o) == [S0 EXCEPT !.op = "adjoint", !.m = m, !.x = x, !.o = o]
\* prox_{a F}(x, out=o),  F = f (fn = "f") or g_m (fn = "g"), of the conjugate if cj
SProx(fn, m, cj, a, x, o) ==
  [S0 EXCEPT !.op = "prox", !.fn = fn, !.m = m, !.cj = cj, !.a = a, !.x = x, !.o = o]
SGrad(x, o)      == [S0 EXCEPT !.op = "grad", !.x = x, !.o = o]            \* o = grad h(x) (fresh o)
SCallback(x)     == [S0 EXCEPT !.op = "callback", !.x = x]

Put(h, o, v) == IF o \in DOMAIN h THEN [h EXCEPT ![o] = v] ELSE (o :> v) @@ h

Func(I, st) == IF st.fn = "f" THEN I.f ELSE I.gs[st.m]

\* the value a statement writes into st.o
Result(I, h, st, aliaszero) ==
  CASE st.op = "lincomb" -> RLin(st.a, h[st.x], st.b, h[st.y])
    [] st.op = "iadd"    -> RAdd(h[st.o], h[st.x])
    [] st.op = "isub"    -> RSub(h[st.o], h[st.x])
    [] st.op = "scal"    -> RScal(st.a, h[st.x])
    [] st.op = "assign"  -> h[st.x]
    [] st.op = "apply"   -> MatVec(I.Ls[st.m], h[st.x])
    [] st.op = "adjoint" -> MatTVec(I.Ls[st.m], h[st.x])
    [] st.op = "grad"    -> Grad(I.h, h[st.x])
    [] st.op = "prox"    ->
         LET F == Func(I, st) IN
         IF aliaszero /\ st.x = st.o /\ ~st.cj /\ F.k = "L1" /\ F.t = <<>> /\ ~HasNaN(h[st.x])
           THEN RZero(Len(h[st.x]))
         ELSE IF st.cj THEN ProxConj(F, st.a, h[st.x]) ELSE Prox(F, st.a, h[st.x])

Exec(I, h, st, aliaszero) ==
  IF st.op = "callback" THEN h ELSE Put(h, st.o, Result(I, h, st, aliaszero))

\* restriction of a heap to a set of object names
Keep(h, names) == [o \in (DOMAIN h) \cap names |-> h[o]]
=============================================================================

-------------------------- MODULE DerivedSpaceImpl --------------------------
(***************************************************************************)
(* Layer C for property C20, derived-space constructors as written on the  *)
(* current tree:                                                            *)
(*   odl/space/base_tensors.py  TensorSpace.astype / _astype / real_space / *)
(*                              complex_space                               *)
(*   odl/space/npy_tensors.py   NumpyTensorSpace.byaxis, __init__ checks    *)
(*   odl/discr/discr_space.py   DiscretizedSpace._astype, byaxis_in         *)
(*   odl/space/pspace.py        ProductSpace.astype / real_space /          *)
(*                              complex_space / __getitem__                 *)
(* ImplDerived(spc, c) = [k |-> "ok" | "raise", view |-> SetSem!View of the  *)
(* result].  TLC checks it against layer A (SetSem!DerivedDiff) for every    *)
(* case of every space of the universe except the cells of the OPEN         *)
(* findings KF-C20-6, -7, -8 (OpenCell), which are shown to be real.        *)
(***************************************************************************)
EXTENDS EqHashImpl

Ok(v)  == [k |-> "ok", view |-> v]
NoView == [shape |-> <<>>, dt |-> "", fld |-> "",
           w |-> [kind |-> "none", exp |-> QZero, c |-> QOne, arr |-> <<>>, tag |-> ""], nw |-> <<>>]
Raises == [k |-> "raise", view |-> NoView]
DefaultW == [kind |-> "const", exp |-> QI(2), c |-> QOne, arr |-> <<>>, tag |-> ""]

\* dtype of the array of an array weighting: the real dtype of the space it was made for (harness convention)
ArrDt(spc) == IF DtypeOf(spc) \in {"f32", "c64"} THEN "f32" ELSE "f64"
\* NumpyTensorSpace.__init__: np.can_cast(weighting.array.dtype, self.dtype)
CanCast(adt, dt) == adt = "f32" \/ dt \in {"f64", "c128"}

(* ----------------------------- dtype changes ---------------------------- *)
\* TensorSpace.astype: dtype == self.dtype -> self;  _astype: the weighting object is passed on for
\* floating target dtypes only (else the default weighting), and an array weighting is NOT converted
ImplTensorAstype(spc, dt) ==
  LET v == View(spc) IN
  IF dt = v.dt THEN Ok(v)
  ELSE IF ~Floating(dt) THEN Ok([v EXCEPT !.dt = dt, !.fld = FieldOfDtype(dt), !.w = DefaultW])
  ELSE IF v.w.kind = "array" /\ ~CanCast(ArrDt(spc), dt) THEN Raises
  ELSE Ok([v EXCEPT !.dt = dt, !.fld = FieldOfDtype(dt)])

RECURSIVE NwOf(_, _, _)
NwOf(cs, rs, k) == IF k > Len(cs) THEN <<>>
                   ELSE (IF cs[k].cls = "PSpace" THEN <<rs[k].view.w>> \o rs[k].view.nw ELSE <<>>) \o NwOf(cs, rs, k + 1)
RECURSIVE ImplAstype(_, _)
\* mode: a target dtype (astype) or "real" / "complex" (real_space / complex_space)
TargetOf(dt, mode) == IF mode = "real" THEN RealDt(dt) ELSE IF mode = "complex" THEN CplxDt(dt) ELSE mode
ImplAstype(spc, mode) ==
  CASE spc.cls = "Tensor" -> ImplTensorAstype(spc, TargetOf(spc.s, mode))
    \* DiscretizedSpace._astype: tspace.astype(dtype), same partition
    [] spc.cls = "Discr" -> ImplTensorAstype(spc, TargetOf(spc.sub[2].s, mode))
    \* ProductSpace.astype: dtype == getattr(self, 'dtype', object) -> self  (self.dtype exists only if ALL components
    \*   share it); otherwise ProductSpace(*[space.astype(dtype) for space in self.spaces])   -- no weighting
    \* real_space / complex_space: ProductSpace(*[space.real_space ...]) always, component by component
    [] spc.cls = "PSpace" ->
         IF mode \notin {"real", "complex"} /\ mode = DtypeOf(spc) THEN Ok(View(spc))
         ELSE LET rs == [k \in 1..Len(Comps(spc)) |-> ImplAstype(Comps(spc)[k], mode)] IN
              IF \E k \in 1..Len(rs) : rs[k].k = "raise" THEN Raises
              ELSE LET ds == [k \in 1..Len(LeafDts(spc)) |-> TargetOf(LeafDts(spc)[k], mode)] IN
                   \* nested product spaces are converted by the same method: their weightings are what IT returns
                   Ok([View(spc) EXCEPT !.dt = DtStr(ds), !.fld = FieldOfDtype(ds[1]), !.w = DefaultW,
                                        !.nw = NwOf(Comps(spc), rs, 1)])

(* ------------------------------ axis selection -------------------------- *)
RECURSIVE IntProd(_)
IntProd(s) == IF s = <<>> THEN 1 ELSE Head(s)[1] * IntProd(Tail(s))
\* rows L (1-based) of a C-ordered array with row length rl
Rows(arr, L, rl) == [k \in 1..(Len(L) * rl) |-> arr[(L[((k - 1) \div rl) + 1] - 1) * rl + ((k - 1) % rl) + 1]]
\* numpy indexing of the weight array (shape sh) by the index expression the code hands through:
\* an int drops the first axis, a list / slice selects rows and keeps it
IndexedArray(arr, sh, idx, form) ==
  LET rl == IntProd(Tail(sh))  rest == Tail(sh) IN
  IF form = "slice" THEN                                   \* [:] (all axes) or [1:]
       (IF idx[1] = 1 THEN [shape |-> sh, arr |-> arr]
        ELSE LET L == [k \in 1..(sh[1][1] - 1) |-> k + 1] IN [shape |-> <<QI(Len(L))>> \o rest, arr |-> Rows(arr, L, rl)])
  ELSE IF form = "negative-int" THEN [shape |-> rest, arr |-> Rows(arr, <<sh[1][1]>>, rl)]   \* array[-1]: the LAST ROW
  ELSE IF Len(idx) = 1 THEN [shape |-> rest, arr |-> Rows(arr, idx, rl)]          \* int
  ELSE [shape |-> <<QI(Len(idx))>> \o rest, arr |-> Rows(arr, idx, rl)]            \* list
\* NumpyTensorSpace.byaxis: newshape = shape[indices]; ArrayWeighting: array[indices] (ENTRIES, not axes),
\* rejected by __init__ unless its shape equals newshape
ImplTensorByAxis(spc, idx, form) ==
  LET v == View(spc)  sh == v.shape
      nsh == [k \in 1..Len(idx) |-> sh[idx[k]]]
  IN  IF v.w.kind # "array" THEN Ok([v EXCEPT !.shape = nsh])
      ELSE LET ia == IndexedArray(v.w.arr, sh, idx, form) IN
           IF ia.shape # nsh THEN Raises
           ELSE Ok([v EXCEPT !.shape = nsh, !.w = [v.w EXCEPT !.arr = ia.arr]])
\* DiscretizedSpace.byaxis_in: constant weighting -> 1.0 (exponent inf) or the cell volume of the selection,
\* whatever the constant was; otherwise tspace.byaxis[indices]
ImplByAxisIn(spc, idx, form) ==
  LET v == View(spc)
      nsh == [k \in 1..Len(idx) |-> v.shape[idx[k]]]
  IN  IF v.w.kind = "const"
        THEN Ok([v EXCEPT !.shape = nsh, !.w = [v.w EXCEPT !.c = IF v.w.exp = Inf THEN QOne ELSE CellVolOf(spc, idx)]])
        ELSE ImplTensorByAxis(spc, idx, form)

(* ------------------------------ product spaces -------------------------- *)
\* ProductSpace.__getitem__: int -> the component; slice / list -> ProductSpace(*selected, field=...)  -- no weighting
ImplPGetItem(spc, c) ==
  IF c.op = "getitem-int" THEN Ok(View(Comps(spc)[c.idx[1]]))
  ELSE Ok([PSelectView(spc, c.idx) EXCEPT !.w = DefaultW])

ImplDerived(spc, c) ==
  CASE c.op = "astype" -> ImplAstype(spc, c.dt)
    [] c.op = "real_space" -> ImplAstype(spc, "real")
    [] c.op = "complex_space" -> ImplAstype(spc, "complex")
    [] c.op = "byaxis" -> ImplTensorByAxis(spc, c.idx, c.form)
    [] c.op = "byaxis_in" -> ImplByAxisIn(spc, c.idx, c.form)
    [] c.op \in {"getitem-int", "getitem-list"} -> ImplPGetItem(spc, c)

(* --------------------------- the open findings -------------------------- *)
HasArrayW(spc) == HasCls(spc, ArrayW)
DtypeChange(c) == c.op \in {"astype", "real_space", "complex_space"}
\* KF-C20-6  astype of an array-weighted space to float32 / complex64 raises
\* KF-C20-7  byaxis / byaxis_in of an array-weighted tensor / discretised space
\* KF-C20-8  ProductSpace dtype changes and slice / list indexing drop weighting and exponent
OpenCell(spc, c) ==
  \/ (HasArrayW(spc) /\ DtypeChange(c))
  \/ (HasArrayW(spc) /\ spc.cls \in {"Tensor", "Discr"} /\ c.op \in {"byaxis", "byaxis_in"})
\* KF-C20-8 concerns the WEIGHTING (and exponent) only: shape, dtype (component-wise!) and field must be right
WeightingOpenCell(spc, c) == spc.cls = "PSpace" /\ (DtypeChange(c) \/ c.op = "getitem-list")
\* the model of the code agrees with layer A outside the open cells
DerivedRefines(spc) ==
  \A c \in DerivedCases(spc) :
     LET dd == DerivedDiff(spc, c, ImplDerived(spc, c)) IN
     dd = {} \/ OpenCell(spc, c) \/ (WeightingOpenCell(spc, c) /\ dd = {"weighting"})
=============================================================================

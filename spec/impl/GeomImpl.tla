------------------------------ MODULE GeomImpl ------------------------------
(***************************************************************************)
(* Layer C for C19: implementation-shaped models of three decision         *)
(* structures of odl/tomo/geometry, transcribed from the CURRENT code       *)
(* (flags switch to the repaired form), to be checked against layer A:     *)
(*                                                                         *)
(*  1. __getitem__ of the four sliceable classes: which constructor        *)
(*     arguments are handed to the new instance (parallel.py / conebeam.py)*)
(*  2. cone_beam_geometry / helical_geometry: detector extent formulas     *)
(*  3. the squeeze rule of vectorised queries (shape of the result)        *)
(***************************************************************************)
EXTENDS GeomSem

CONSTANTS FixedSlice,     \* TRUE: Parallel2dGeometry.__getitem__ passes the det_pos_init ARGUMENT
          FixedCurv,      \* TRUE: ConeBeamGeometry.__getitem__ passes the curvature radii as a pair
          FixedCover      \* TRUE: factory extents use the tangent-ray formulas

(* ---- 1. slicing ------------------------------------------------------- *)
\* What the constructor stores: the absolute initial detector position of parallel geometries is
\* the (defaulted) argument plus the translation.
AbsDetPosInit(g) == GAdd(Frame(g).pos, Frame(g).t)

\* the descriptor of the instance created by self[indices]; "raises" marks a constructor error
GetItemImpl(g) ==
  CASE g.cls = "par2d" ->
         \* Parallel2dGeometry(apart, dpart, det_pos_init=self.det_pos_init,
         \*                    det_axis_init=self._det_axis_init_arg, translation=self.translation)
         [g EXCEPT !.p0 = IF FixedSlice THEN (IF g.mat # <<>> THEN Frame(g).pos ELSE g.p0) ELSE AbsDetPosInit(g),
                   !.ax = IF g.mat # <<>> THEN Frame(g).axes ELSE g.ax,
                   !.t = Frame(g).t, !.mat = <<>>]
    [] g.cls = "par3dax" ->
         \* det_pos_init=self._det_pos_init_arg, det_axes_init=self._det_axes_init_arg, axis=self.axis
         [g EXCEPT !.k = Frame(g).k, !.p0 = IF g.mat # <<>> THEN Frame(g).pos ELSE g.p0,
                   !.ax = IF g.mat # <<>> THEN Frame(g).axes ELSE g.ax, !.t = Frame(g).t, !.mat = <<>>]
    [] g.cls = "fan" ->
         \* src_to_det_init=self.src_to_det_init (unit), det_axis_init=self._det_axis_init_arg
         [g EXCEPT !.e = Frame(g).e, !.ax = IF g.mat # <<>> THEN Frame(g).axes ELSE g.ax,
                   !.t = Frame(g).t, !.mat = <<>>]
    [] g.cls = "cone" ->
         \* det_curvature_radius=self.det_curvature_radius is the detector's scalar radius, while the
         \* constructor takes len() of it
         IF g.det.kind \in {"cyl", "sph"} /\ ~FixedCurv THEN [g EXCEPT !.id = "raises"]
         ELSE [g EXCEPT !.k = Frame(g).k, !.e = IF g.mat # <<>> THEN Frame(g).e ELSE g.e,
                        !.ax = IF g.mat # <<>> THEN Frame(g).axes ELSE g.ax, !.t = Frame(g).t, !.mat = <<>>]
    [] OTHER -> [g EXCEPT !.id = "raises"]        \* Parallel3dEulerGeometry has no __getitem__

\* C [= A : the sliced instance answers every query like the original
SliceRefines(g, a, u) ==
  LET h == GetItemImpl(g) IN
  /\ h.id # "raises"
  /\ DetRefPoint(h, a) = DetRefPoint(g, a)
  /\ DetPoint(h, a, u) = DetPoint(g, a, u)
  /\ DetAxes(h, a) = DetAxes(g, a)
  /\ (~IsParallel(g.cls) => SrcPos(h, a) = SrcPos(g, a))

(* ---- 2. factory extents ----------------------------------------------- *)
\* cone_beam_geometry / helical_geometry:  w = 2 * rho * (rs + rd) / rs
ImplHalfWidth2(rho2, rs, rd) ==
  IF FixedCover THEN CoverHalfWidth2(rho2, rs, rd)
  ELSE QDiv(QMul(rho2, QSq(QAddL(rs, rd))), QSq(rs))
\* cone_beam_geometry:  h = 2 * sin(arctan(|z| / (rs - rho))) * (rs + rd)   (before rounding up to pixels)
\* squared:  z^2 (rs+rd)^2 / (z^2 + (rs-rho)^2)
ImplHalfHeight2(z, rs, rd, rho) ==
  IF FixedCover THEN QSq(CoverHalfHeight(z, rs, rd, rho))
  ELSE QDiv(QMul(QSq(z), QSq(QAddL(rs, rd))), QAddL(QSq(z), QSq(QSubL(rs, rho))))

WidthCovers(rho2, rs, rd) == QLe(CoverHalfWidth2(rho2, rs, rd), ImplHalfWidth2(rho2, rs, rd))
HeightCovers(z, rs, rd, rho) == QLe(QSq(CoverHalfHeight(z, rs, rd, rho)), ImplHalfHeight2(z, rs, rd, rho))

(* ---- 3. squeeze rule --------------------------------------------------- *)
\* det_point_position / det_to_src: parameters are promoted to ndmin=1, the result is squeezed iff
\* BOTH parameter groups were scalars
Promote(s) == IF s = <<>> THEN <<1>> ELSE s
RECURSIVE PromoteAll(_)
PromoteAll(ss) == IF Len(ss) = 0 THEN <<>> ELSE <<Promote(Head(ss))>> \o PromoteAll(Tail(ss))
RECURSIVE DropOnes(_)
DropOnes(s) == IF Len(s) = 0 THEN <<>> ELSE (IF Head(s) = 1 THEN <<>> ELSE <<Head(s)>>) \o DropOnes(Tail(s))
ShapeImpl(mshapes, dshapes, ndim) ==
  LET bm == BcastAll(PromoteAll(mshapes))
      bd == BcastAll(PromoteAll(dshapes))
      b  == Bcast2(bm, bd)
      msc == BcastAll(mshapes) = <<>>
      dsc == BcastAll(dshapes) = <<>>
  IN  IF b = <<-1>> THEN <<-1>>
      ELSE IF msc /\ dsc THEN DropOnes(b \o <<ndim>>) ELSE b \o <<ndim>>
=============================================================================

------------------------------ MODULE OpUtilImpl ------------------------------
(***************************************************************************)
(* Layer C: the decision structures of odl/operator/oputils.py and          *)
(* odl/ufunc_ops/ufunc_ops.py AS WRITTEN (current tree, including its open  *)
(* deviations from the documentation), checked by TLC to refine layer A     *)
(* (OpUtilSem) on the bounded instances of MC_OpUtilImpl.                   *)
(*                                                                         *)
(* 1. matrix_representation: the three guards in their order and the index  *)
(*    bookkeeping of the fill loop                                          *)
(*       matrix = zeros(range.shape + domain.shape)                         *)
(*       for j in nd_iterator(domain.shape):                                *)
(*           tmp_dom[j] = 1; matrix[(Ellipsis,) + j] = op(tmp_dom).asarray()*)
(* 2. power_method_opnorm: the branch structure before the loop and the     *)
(*    stopping rule of the loop.                                            *)
(* 3. the ufunc class factory: Operator or Functional, linear flag, which   *)
(*    ufuncs get a derivative / gradient.                                   *)
(* Constants FixedNone / FixedNoAdjoint / FixedFirstStop say which of the   *)
(* open deviations have been repaired in the tree under test (FALSE = the   *)
(* code still deviates; the refinement statements are then restricted to    *)
(* the complement of the exactly characterised deviation set).              *)
(***************************************************************************)
EXTENDS OpUtilSem

CONSTANTS FixedNone,        \* maxiter=None no longer hits the evenness check
          FixedNoAdjoint,   \* an operator without adjoint is accepted when domain = range
          FixedFirstStop    \* the first estimate is no longer compared with the norm of the start vector

(* ------------------------- 1. matrix_representation --------------------- *)
\* isinstance(space, TensorSpace) or (ProductSpace and is_power_space and all parts TensorSpace)
ImplSpaceOK(sp) == IsTensor(sp) \/ (sp.k = "p" /\ IsPower(sp) /\ \A i \in 1..Len(sp.parts) : IsTensor(sp.parts[i]))
ImplMatRepOutcome(e) ==
  IF ~OLinear(e) THEN "ValueError"
  ELSE IF ~ImplSpaceOK(ODom(e)) THEN "TypeError"
  ELSE IF ~ImplSpaceOK(ORan(e)) THEN "TypeError"
  ELSE "ok"
\* the fill loop: for every domain multi-index j (nd_iterator = C order) the slab matrix[..., j] receives the
\* output array; the entry at (ri, j) is therefore output[ri]
ImplMatRepFlat(e) ==
  LET rs == ShapeOf(ORan(e))  ds == ShapeOf(ODom(e))  nd == Prod(ds)
      outs == [q \in 1..nd |-> OApply(e, OUnit(nd, FlatIx(ds, Unflat(ds, q - 1)) + 1))] \o <<>>
      sh == rs \o ds
  IN [p \in 1..Prod(sh) |->
        LET ix == Unflat(sh, p - 1)
            ri == SubSeq(ix, 1, Len(rs))  j == SubSeq(ix, Len(rs) + 1, Len(ix))
        IN outs[FlatIx(ds, j) + 1][FlatIx(rs, ri) + 1]]
MatRepRefines(e) ==
  LET a == MatRepOutcome(e)  c == ImplMatRepOutcome(e)
  IN /\ (a = "raises" => c # "ok")
     /\ (a = "ok" => c = "ok")
     /\ (c = "ok" => /\ ImplMatRepFlat(e) = MatRepFlat(e)
                     /\ ShapeOf(ORan(e)) \o ShapeOf(ODom(e)) = MatRepShape(e))

(* ------------------------- 2. power_method_opnorm ----------------------- *)
(* abstract call: [mnone, maxiter, adj, square, x0zero]                     *)
(*   adj = "self"  : op.adjoint is op                                       *)
(*         "other" : op.adjoint is another operator                         *)
(*         "none"  : evaluating op.adjoint raises (nonlinear / no adjoint)  *)
MaxInt == 2147483647          \* stands for np.iinfo(int).max: what matters is that it is ODD
ImplPMOutcome(cl) ==
  LET mi == IF cl.mnone THEN MaxInt ELSE cl.maxiter
  IN IF mi <= 0 THEN "ValueError:maxiter-positive"
     ELSE IF cl.adj = "none" /\ ~(FixedNoAdjoint /\ cl.square) THEN "OpNotImplementedError"    \* `op.adjoint is op` evaluates op.adjoint
     ELSE IF cl.adj = "self" \/ cl.adj = "none" THEN (IF cl.x0zero THEN "ValueError:xstart-zero" ELSE "plain")
     ELSE IF (mi \div 2) * 2 # mi /\ ~(FixedNone /\ cl.mnone) THEN "ValueError:maxiter-even"
     ELSE IF cl.x0zero THEN "ValueError:xstart-zero" ELSE "normal"
ImplPMRaises(cl) == ImplPMOutcome(cl) \notin {"plain", "normal"}
APMOutcome(cl) == PMArgOutcome(cl.mnone, cl.maxiter, cl.square, cl.adj # "none", cl.x0zero)
\* the exactly characterised deviations of the current code from the documentation
PMDeviation(cl) ==
  \/ (~FixedNone /\ cl.mnone /\ cl.adj = "other")                               \* None -> odd -> "must be even"
  \/ (~FixedNoAdjoint /\ cl.adj = "none" /\ cl.square /\ (cl.mnone \/ cl.maxiter > 0))   \* adjoint demanded although domain = range
  \/ (cl.adj = "other" /\ cl.square /\ ~cl.mnone /\ cl.maxiter > 0 /\ cl.maxiter % 2 = 1) \* evenness demanded although domain = range
PMWellFormed(cl) == (cl.adj = "self" => cl.square)
PMBranchRefines(cl) ==
  PMWellFormed(cl) =>
    LET a == APMOutcome(cl)
    IN /\ (a = "raises" => ImplPMRaises(cl))
       /\ ((a = "returns" /\ ImplPMRaises(cl)) <=> (PMDeviation(cl) /\ ~cl.x0zero /\ a = "returns"))

\* the loop: E = the estimates (quanta), e0 = the "initial guess" (norm of xstart, resp. its square root),
\* np.isclose(new, old, rtol, atol): abs(new - old) <= atol + rtol * abs(old)
ImplClose(a, b, rn, rd, atq) == rd * Abs(a - b) <= rd * atq + rn * Abs(b)
RECURSIVE ImplStopAt(_, _, _, _, _, _, _)
ImplStopAt(E, e0, rn, rd, atq, maxit, i) ==
  IF i > maxit THEN maxit
  ELSE LET old == IF i = 1 THEN e0 ELSE E[i - 1]
       IN IF (i > 1 \/ ~FixedFirstStop) /\ ImplClose(E[i], old, rn, rd, atq) THEN i
          ELSE ImplStopAt(E, e0, rn, rd, atq, maxit, i + 1)
\* layer A: K is admissible iff it is maxit or the documented rule holds at K between two ESTIMATES, and did not
\* surely hold earlier
AStopOK(E, rn, rd, atq, maxit, K) ==
  /\ K >= 1 /\ K <= maxit
  /\ (K < maxit => (K >= 2 /\ PossiblyClose(E[K], E[K - 1], rn, rd, atq)))
  /\ \A j \in 2..(K - 1) : ~SurelyClose(E[j], E[j - 1], rn, rd, atq)
PMStopRefines(E, e0, rn, rd, atq, maxit) ==
  LET K == ImplStopAt(E, e0, rn, rd, atq, maxit, 1)
  IN AStopOK(E, rn, rd, atq, maxit, K)
     \/ (~FixedFirstStop /\ K = 1 /\ ImplClose(E[1], e0, rn, rd, atq))       \* the open deviation, exactly

(* ------------------------- 3. ufunc class factory ----------------------- *)
(* table row: [name, nin, nout]                                             *)
ImplIntOnly(name) == name \in {"left_shift", "right_shift", "bitwise_and", "bitwise_or", "bitwise_xor", "invert"}
ImplLinearUfuncs == {"negative", "rad2deg", "deg2rad", "add", "subtract"}
ImplDerivNames == {"sin", "cos", "tan", "sqrt", "square", "log", "exp", "reciprocal", "sinh", "cosh"}
\* ufunc_factory(domain): Field -> globals()[name + "_func"] (KeyError -> ValueError), otherwise name + "_op"
ImplFactory(row, onfield) ==
  IF onfield THEN (IF ~ImplIntOnly(row.name) /\ row.nin = 1 /\ row.nout = 1 THEN "functional" ELSE "ValueError")
  ELSE "operator"
ImplLinear(row) == row.name \in ImplLinearUfuncs
\* operator: derivative_factory(name) or the default Operator.derivative (self when linear, else raises)
ImplDerivative(row) == IF row.name \in ImplDerivNames THEN "defined"
                       ELSE IF ImplLinear(row) THEN "self" ELSE "OpNotImplementedError"
\* functional: property(gradient_factory(name)); the fallback wraps the PROPERTY Functional.gradient in another
\* property, so accessing it raises TypeError ('property' object is not callable) instead of NotImplementedError
ImplGradient(row) == IF row.name \in ImplDerivNames THEN "defined" ELSE "TypeError"
UfuncFactoryRefines(row) ==
  /\ (ImplLinear(row) => row.name \in UfTrulyLinear)                      \* the flag is sound
  /\ (row.name \in UfWithDeriv <=> ImplDerivative(row) = "defined")       \* exactly the documented ones have one
  /\ (row.name \in UfWithDeriv <=> ImplGradient(row) = "defined")
  /\ (ImplFactory(row, TRUE) = "functional" => row.nin = 1 /\ row.nout = 1)
=============================================================================

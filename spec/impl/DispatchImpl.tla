----------------------------- MODULE DispatchImpl -----------------------------
(***************************************************************************)
(* C03, layers B and C: the operator call protocol.                         *)
(*                                                                         *)
(* Layer B (Protocol): what op(x) / op(x, out=y) must do, from the          *)
(* property statement.                                                      *)
(* Layer C (Impl): odl/operator/operator.py transcribed -                   *)
(*   Operator.__new__   : classification of the user's _call signature      *)
(*                        (has_out, out_optional) and installation of       *)
(*                        _call_in_place / _call_out_of_place with the      *)
(*                        default bridges                                   *)
(*   Operator.__call__  : membership / cast of x, checks on out, the        *)
(*                        functional special case, the return-value check,  *)
(*                        the range cast of out-of-place results            *)
(* A cell is (signature kind, behaviour of the user's _call, kind of x,     *)
(* kind of out, functional?).  The abstract operator is F; values are       *)
(* tokens: the heap content of `out` after the call is "F(x)" or "stale".   *)
(***************************************************************************)
EXTENDS Integers, Sequences, TLC

SigKinds == {"oop", "ip", "dual", "kwonly"}
\* what the user's _call does:
\*   oop   : "elem" returns a range element, "raw" returns something castable to the range (e.g. ndarray)
\*   ip    : writes F(x) into out and returns "none" / "out"; "other" returns a different object (a bug of the user class)
\*   dual / kwonly : out=None -> "elem"/"raw" ; out given -> "none"/"out"
Behaviours(sig) == IF sig = "oop" THEN {"elem", "raw"}
                   ELSE IF sig = "ip" THEN {"none", "out", "other"}
                   ELSE {"elem-none", "elem-out", "raw-none", "raw-out"}
XKinds == {"elem", "castable", "bad"}
OutKinds == {"none", "range", "bad"}

CONSTANT NoCell
VARIABLES sig, beh, xk, ok, fnl
cvars == <<sig, beh, xk, ok, fnl>>
Init == /\ sig \in SigKinds /\ beh \in Behaviours(sig)
        /\ xk \in XKinds /\ ok \in OutKinds /\ fnl \in BOOLEAN
        /\ (fnl => sig = "oop")           \* functionals (range = field) implement the out-of-place form
Next == UNCHANGED cvars
Spec == Init /\ [][Next]_cvars

Res(status, ret, outval) == [status |-> status, ret |-> ret, out |-> outval]
\* status: "ok" | "OpDomainError" | "OpRangeError" | "TypeError" | "ValueError"
\* ret   : "new-in-range" | "the-out-object" | "-"        out: content of the out object afterwards

(* ------------------------------ layer B -------------------------------- *)
Protocol ==
  IF xk = "bad" THEN Res("OpDomainError", "-", "stale")
  ELSE IF ok = "bad" THEN Res("OpRangeError", "-", "stale")
  ELSE IF ok = "range" /\ fnl THEN Res("TypeError", "-", "stale")      \* documented: no out for field ranges
  ELSE IF ok = "range" THEN Res("ok", "the-out-object", "F(x)")
  ELSE Res("ok", "new-in-range", "stale")

(* ------------------------------ layer C -------------------------------- *)
HasOut == sig # "oop"
OutOptional == sig \in {"dual", "kwonly"}
\* what the installed _call_in_place returns and leaves in out
InPlace ==
  IF ~HasOut THEN [ret |-> "none", out |-> "F(x)"]           \* _default_call_in_place: out.assign(range.element(_call(x)))
  ELSE IF sig = "ip" THEN [ret |-> beh, out |-> "F(x)"]
  ELSE [ret |-> (IF beh \in {"elem-none", "raw-none"} THEN "none" ELSE "out"), out |-> "F(x)"]
\* what the installed _call_out_of_place returns: "elem" | "raw" | "ValueError"
OutOfPlace ==
  IF ~HasOut THEN beh
  ELSE IF OutOptional THEN (IF beh \in {"elem-none", "elem-out"} THEN "elem" ELSE "raw")
  ELSE \* _default_call_out_of_place: out = range.element(); result = _call_in_place(x, out); check result
       IF beh = "other" THEN "ValueError" ELSE "elem"

Impl ==
  IF xk = "bad" THEN Res("OpDomainError", "-", "stale")
  ELSE IF ok # "none" THEN
       IF ok = "bad" THEN Res("OpRangeError", "-", "stale")
       ELSE IF fnl THEN Res("TypeError", "-", "stale")
       ELSE IF InPlace.ret = "other" THEN Res("ValueError", "-", InPlace.out)
       ELSE Res("ok", "the-out-object", InPlace.out)
  ELSE IF OutOfPlace = "ValueError" THEN Res("ValueError", "-", "stale")
  ELSE Res("ok", "new-in-range", "stale")      \* "raw" results are cast with range.element(out)

\* a user class whose in-place _call returns a foreign object violates the documented contract of _call;
\* for every well-behaved class the implementation follows the protocol
WellBehaved == beh # "other"
Refines == WellBehaved => Impl = Protocol
\* ill-behaved classes are rejected, never silently accepted
IllBehavedRejected == (~WellBehaved /\ xk # "bad" /\ ok # "bad") => Impl.status = "ValueError"
=============================================================================

------------------------------ MODULE LeafOpImpl ------------------------------
(***************************************************************************)
(* Layer C: the decision structures of the leaf operators AS WRITTEN in     *)
(* odl/operator/tensor_ops.py and odl/space/space_utils.py, to be checked   *)
(* by TLC to refine layer A (LeafOpSem) on the bounded instances:           *)
(*   MatInit      MatrixOperator.__init__  (domain / range inference,       *)
(*                weighting propagation, dtype promotion and the cast rule) *)
(*   MatCall      MatrixOperator._call     (dense: tensordot + moveaxis;    *)
(*                sparse / one axis: dot)                                   *)
(*   PtsNorm, FlatIdx, SampleCall, WSumCall                                 *)
(*                _normalize_sampling_points, ravel_multi_index, fancy      *)
(*                indexing of the ravelled array, bincount + reshape        *)
(*   PwNormCall   PointwiseNorm._call      (exponent 1 / inf / p branches,  *)
(*                the one-component shortcut, the is_weighted flag)         *)
(*   VectorSpace  odl.vector               (dtype dispatch, ndmin = 1)      *)
(* A mismatch real-code-vs-layer-C with layer A satisfied is drift only.    *)
(***************************************************************************)
EXTENDS LeafOpSem

(* ------------------------- MatrixOperator.__init__ ---------------------- *)
Promote(f, g) == IF f = "C" \/ g = "C" THEN "C" ELSE "R"
CanCast(f, g) == ~(f = "C" /\ g = "R")
\* a : [rows, cols, mfld, dom (record or <<>>), ax, ran (record or <<>>)];  dom / ran = [shape, fld, wk], wk = "none" | "const" | "array"
MatInit(a) ==
  LET dom == IF a.dom = <<>> THEN [shape |-> <<a.cols>>, fld |-> a.mfld, wk |-> "none"] ELSE a.dom IN
  IF a.dom # <<>> /\ dom.shape[a.ax + 1] # a.cols THEN [ok |-> FALSE, why |-> "ValueError"]
  ELSE LET range_shape == [dom.shape EXCEPT ![a.ax + 1] = a.rows]
           \* `range_shape != domain.shape` compares a list with a tuple: always true in the code as written
           list_ne_tuple == TRUE
           ran == IF a.ran = <<>>
                    THEN [shape |-> range_shape, fld |-> Promote(a.mfld, dom.fld),
                          wk |-> IF list_ne_tuple /\ dom.wk = "array" THEN "none" ELSE dom.wk]
                    ELSE a.ran
       IN  IF a.ran # <<>> /\ ran.shape # range_shape THEN [ok |-> FALSE, why |-> "ValueError"]
           ELSE IF ~CanCast(Promote(dom.fld, a.mfld), ran.fld) THEN [ok |-> FALSE, why |-> "ValueError"]
           ELSE [ok |-> TRUE, dom |-> dom, ran |-> ran]

\* layer A (documentation): one-axis domain of the matrix' type by default; the axis entry of the shape replaced by the
\* number of rows; promoted type; the weighting of the domain is propagated (an array weighting cannot be when the
\* shapes differ - and what happens when they agree is left open); inadmissible arguments raise
MatInitA(a) ==
  LET dom == IF a.dom = <<>> THEN [shape |-> <<a.cols>>, fld |-> a.mfld, wk |-> "none"] ELSE a.dom
      rs  == [dom.shape EXCEPT ![a.ax + 1] = a.rows] IN
  IF dom.shape[a.ax + 1] # a.cols THEN [ok |-> FALSE]
  ELSE IF a.ran # <<>> /\ (a.ran.shape # rs \/ ~CanCast(Promote(dom.fld, a.mfld), a.ran.fld)) THEN [ok |-> FALSE]
  ELSE [ok |-> TRUE, dom |-> dom, rshape |-> rs, rfld |-> IF a.ran = <<>> THEN Promote(a.mfld, dom.fld) ELSE a.ran.fld,
        rwk |-> IF a.ran # <<>> THEN {a.ran.wk} ELSE IF dom.wk = "array" THEN (IF rs = dom.shape THEN {"none", "array"} ELSE {"none"}) ELSE {dom.wk}]
MatInitRefines(a) ==
  LET c == MatInit(a) r == MatInitA(a) IN
  /\ c.ok = r.ok
  /\ c.ok => /\ c.dom = r.dom /\ c.ran.shape = r.rshape /\ c.ran.fld = r.rfld /\ c.ran.wk \in r.rwk
\* NOT satisfied by the code as written (pinned quirk, expected counter-example): an array weighting of a domain whose
\* shape equals the range shape is dropped as well
ArrayWeightingKeptWhenShapesAgree(a) ==
  LET c == MatInit(a) IN (c.ok /\ a.ran = <<>> /\ c.dom.wk = "array" /\ c.ran.shape = c.dom.shape) => c.ran.wk = "array"

(* --------------------------- MatrixOperator._call ----------------------- *)
Remove(s, p) == SubSeq(s, 1, p - 1) \o SubSeq(s, p + 1, Len(s))
Insert(s, p, v) == SubSeq(s, 1, p - 1) \o <<v>> \o SubSeq(s, p, Len(s))
\* np.tensordot(matrix, x, axes=(1, axis)): axes of the result = (matrix rows, remaining axes of x in order)
Tensordot(m, ax, dshape, t) ==
  LET dsh == <<Len(m)>> \o Remove(dshape, ax + 1)
      f(idx) == LET g(j) == CMul(m[idx[1] + 1][j], At(dshape, t, Insert(Tail(idx), ax + 1, j - 1))) IN CSumF(g, 1, Len(m[1]))
  IN  [shape |-> dsh, t |-> Tensor(dsh, f)]
\* np.moveaxis(a, 0, axis)
Moveaxis0(a, ax) ==
  LET osh == Insert(Tail(a.shape), ax + 1, a.shape[1])
      f(idx) == At(a.shape, a.t, <<idx[ax + 1]>> \o Remove(idx, ax + 1))
  IN  [shape |-> osh, t |-> Tensor(osh, f)]
\* form: "dense" (tensordot + moveaxis, also the in-place branch for several axes), "dot" (scipy.sparse and the in-place
\* branch for one axis: matrix.dot(x))
MatCall(form, m, ax, dshape, t) ==
  IF form = "dot" THEN [shape |-> <<Len(m)>>, t |-> [i \in 1..Len(m) |-> LET g(j) == CMul(m[i][j], t[j]) IN CSumF(g, 1, Len(m[1]))]]
  ELSE Moveaxis0(Tensordot(m, ax, dshape, t), ax)
MatCallRefines(form, m, ax, dshape, t) ==
  LET rs == [dshape EXCEPT ![ax + 1] = Len(m)] c == MatCall(form, m, ax, dshape, t) IN
  c.shape = rs /\ c.t = MatApply(m, ax, dshape, rs, t)

(* ----------------------- sampling points and indexing ------------------- *)
\* spelled sampling points: [kind, v]; kinds for one axis: "int" (v an index), "seq" (v a sequence of indices),
\* "rowseq" (a list holding one list); for several axes: "point" (v one multi-index), "cols" (v a sequence of index
\* sequences, one per axis).  Result: the sequence of multi-indices.
PtsNorm(ndim, s) ==
  IF ndim = 1 THEN CASE s.kind = "int"    -> << <<s.v>> >>
                     [] s.kind = "seq"    -> [n \in 1..Len(s.v) |-> <<s.v[n]>>]
                     [] s.kind = "rowseq" -> [n \in 1..Len(s.v[1]) |-> <<s.v[1][n]>>]
  ELSE CASE s.kind = "point" -> << s.v >>
         [] s.kind = "cols"  -> [n \in 1..Len(s.v[1]) |-> [a \in 1..ndim |-> s.v[a][n]]]
FlatIdx(shape, pts) == [n \in 1..Len(pts) |-> RavelC(shape, pts[n])]          \* np.ravel_multi_index
SampleCall(shape, pts, var, cv, t) ==
  LET flat == FlatIdx(shape, pts) out == [n \in 1..Len(pts) |-> t[flat[n] + 1]]
      weights == IF var = "point_eval" THEN QOne ELSE cv
  IN  IF weights # QOne THEN VScal(CR(weights), out) ELSE out
\* np.bincount(flat, weights=x, minlength=size).reshape(shape), then division by the cell volume for 'dirac'
WSumCall(shape, pts, var, cv, g) ==
  LET flat == FlatIdx(shape, pts)
      y == [k \in 1..Prod(shape) |-> LET h(n) == IF flat[n] = k - 1 THEN g[n] ELSE CZero IN CSumF(h, 1, Len(pts))]
      weights == IF var = "dirac" THEN cv ELSE QOne
  IN  IF weights # QOne THEN VScal(CR(QInv(weights)), y) ELSE y
SamplingRefines(shape, pts, cv, t, g) ==
  LET sp == T(shape, "R", "base") e == Env(cv, cv) IN
  /\ \A var \in {"point_eval", "integrate"} :
        << SampleCall(shape, pts, var, cv, t) >> = Eval([Mk("sample", sp, e) EXCEPT !.pts = pts, !.var = var], << t >>)
  /\ \A var \in {"char_fun", "dirac"} :
        << WSumCall(shape, pts, var, cv, g) >> = Eval([Mk("wsum", sp, e) EXCEPT !.pts = pts, !.var = var], << g >>)

(* --------------------------- PointwiseNorm._call ------------------------ *)
\* result RAISED to the power p (2 for the p-branch), for weights with rational roots
PwNormCall(q, w, x) ==
  LET d == Len(x) N == Len(x[1]) is_weighted == \E j \in 1..d : w[j] # QOne
      absw(j, i) == IF is_weighted THEN QMul(w[j], CModQ(x[j][i])) ELSE CModQ(x[j][i]) IN
  CASE q = QOne -> [i \in 1..N |-> LET f(j) == absw(j, i) IN QSumF(f, 1, d)]
    [] q = Inf  -> [i \in 1..N |-> LET f(j) == absw(j, i) IN QMaxF(f, 1, d)]
    [] OTHER ->
       IF d = 1 THEN \* just the absolute value, weighted with w ** (1 / p)
            [i \in 1..N |-> QSq(IF is_weighted THEN QMul(QSqrt(w[1]), CModQ(x[1][i])) ELSE CModQ(x[1][i]))]
       ELSE [i \in 1..N |-> LET f(j) == IF is_weighted THEN QMul(w[j], CAbs2(x[j][i])) ELSE CAbs2(x[j][i]) IN QSumF(f, 1, d)]
PwNormRefines(q, w, x) ==
  PwNormCall(q, w, x) = [i \in 1..Len(x[1]) |-> PwNormAt(q, w, Col(x, i))]

(* -------------------------------- odl.vector ---------------------------- *)
\* input: [scalar (BOOLEAN), depth (1 | 2), classes (set of element classes), dtype ("" or a class)];
\* classes ordered bool < int < float < complex
Rank(c) == CASE c = "bool" -> 0 [] c = "int" -> 1 [] c = "float" -> 2 [] c = "complex" -> 3
JoinCls(S) == CHOOSE c \in S : \A o \in S : Rank(o) <= Rank(c)
\* arr = np.array(array, ndmin=1); space dtype = dtype if given else arr.dtype; shape = arr.shape
VectorSpace(inp, len) ==
  LET arr_dtype == JoinCls(inp.classes)
      shape == IF inp.scalar THEN <<1>> ELSE IF inp.depth = 1 THEN <<len>> ELSE <<2, len>>
  IN  [dtype |-> IF inp.dtype # "" THEN inp.dtype ELSE arr_dtype, shape |-> shape]
\* layer A: "scalars become one-dimensional vectors", "no automatic cast to float", "inferred from the input data",
\* "set the data type manually"
VectorSpaceA(inp, len) ==
  [dtype |-> IF inp.dtype # "" THEN inp.dtype ELSE JoinCls(inp.classes),
   shape |-> IF inp.scalar THEN <<1>> ELSE IF inp.depth = 1 THEN <<len>> ELSE <<2, len>>]
\* rn / cn / tensor_space: only real (complex) floating point types for rn (cn); default float64 / complex128
FactoryA(fn, dtype) ==
  CASE fn = "rn" -> IF dtype = "" THEN "float" ELSE IF dtype = "float" THEN "float" ELSE "ValueError"
    [] fn = "cn" -> IF dtype = "" THEN "complex" ELSE IF dtype = "complex" THEN "complex" ELSE "ValueError"
    [] fn = "tensor_space" -> IF dtype = "" THEN "float" ELSE dtype
\* as written: is_real / is_complex of the created space decide
Factory(fn, dtype) ==
  LET dt == IF dtype = "" THEN (IF fn = "cn" THEN "complex" ELSE "float") ELSE dtype
      is_real == dt = "float" is_complex == dt = "complex" IN
  CASE fn = "rn" -> IF is_real THEN dt ELSE "ValueError"
    [] fn = "cn" -> IF is_complex THEN dt ELSE "ValueError"
    [] fn = "tensor_space" -> dt
=============================================================================

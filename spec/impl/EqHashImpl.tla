----------------------------- MODULE EqHashImpl -----------------------------
(***************************************************************************)
(* Layer C for property C20: every __eq__ / __hash__ / __contains__ pair of *)
(* the anchored classes transcribed AS WRITTEN on the pinned tree:          *)
(*   odl/set/sets.py, odl/set/domain.py:IntervalProd, odl/discr/grid.py,    *)
(*   odl/discr/partition.py, odl/space/weighting.py (+ the numpy / product  *)
(*   space subclasses), odl/space/base_tensors.py, npy_tensors.py,          *)
(*   odl/discr/discr_space.py, odl/space/pspace.py                          *)
(* which fields are compared, which go into the hash, where `other is self` *)
(* short-cuts, where isinstance / type(..) is used.                         *)
(*                                                                         *)
(* ImplEq(a, b, same): a == b, `same` = the two operands are one object.    *)
(* ImplHashKey(a): a sequence of strings such that two objects have the     *)
(* same Python hash iff their keys are equal (up to accidental collisions); *)
(* ImplHashRaises(a): hash() raises TypeError.                              *)
(***************************************************************************)
EXTENDS SetSem

\* numpy `u == v` followed by np.all on two 1-d float arrays: broadcasting when one of them has
\* length 1; any other length mismatch RAISES ValueError (operands could not be broadcast)
BroadcastAllEq(u, v) ==
  IF Len(u) = Len(v) THEN \A i \in 1..Len(u) : u[i] = v[i]
  ELSE IF Len(u) = 1 THEN \A i \in 1..Len(v) : v[i] = u[1]
  ELSE IF Len(v) = 1 THEN \A i \in 1..Len(u) : u[i] = v[1]
  ELSE FALSE
BroadcastRaises(u, v) == Len(u) # Len(v) /\ Len(u) # 1 /\ Len(v) # 1
\* a == b raises: IntervalProd over incompatible numbers of axes (also reached through RectPartition)
ImplEqRaises(a, b, same) ==
  /\ ~same
  /\ \/ (a.cls = "IntervalProd" /\ b.cls = "IntervalProd" /\ BroadcastRaises(a.q[1], b.q[1]))
     \/ (a.cls = "RectPartition" /\ b.cls = "RectPartition"
         /\ BroadcastRaises(a.sub[1].q[1], b.sub[1].q[1]))

\* `obj in S` where obj is itself a Set INSTANCE (this is what SetUnion.__eq__ asks):
\* fields / Strings / Integers test isinstance(obj, Number / str) -> False; EmptySet: obj is None -> False;
\* IntervalProd / RectGrid: np.array(obj, dtype=float) fails -> False; FiniteSet: obj in elements (numbers) -> False;
\* CartesianProduct: len(obj) ... components are Set instances tested against number sets -> False
RECURSIVE ImplContainsSetObject(_, _)
ImplContainsSetObject(S, obj) ==
  CASE S.cls = "UniversalSet"    -> TRUE
    [] S.cls = "SetUnion"        -> \E k \in 1..Len(S.sub) : ImplContainsSetObject(S.sub[k], obj)
    [] S.cls = "SetIntersection" -> \A k \in 1..Len(S.sub) : ImplContainsSetObject(S.sub[k], obj)
    [] OTHER -> FALSE

\* Weighting.__eq__ (base): isinstance(other, Weighting) and impl == impl and exponent == exponent
WBaseEq(a, b) == IsWeighting(b) /\ WExp(a) = WExp(b)

RECURSIVE ImplEq(_, _, _)
ImplEq(a, b, same) ==
  CASE a.cls = "EmptySet"       -> b.cls = "EmptySet"                       \* isinstance
    [] a.cls = "UniversalSet"   -> b.cls = "UniversalSet"
    [] a.cls = "Strings"        -> b.cls = "Strings" /\ a.q = b.q
    [] a.cls \in {"RealNumbers", "ComplexNumbers", "Integers"} -> same \/ b.cls = a.cls
    \* type(self) == type(other) and self.sets == other.sets   (tuple ==: `is` or == per item)
    [] a.cls = "CartesianProduct" ->
         /\ b.cls = a.cls /\ Len(a.sub) = Len(b.sub)
         /\ \A k \in 1..Len(a.sub) : same \/ ImplEq(a.sub[k], b.sub[k], FALSE)
    \* type(self) == type(other) and all(set_ in other for set_ in self) and all(set_ in self for set_ in other)
    [] a.cls \in {"SetUnion", "SetIntersection"} ->
         /\ b.cls = a.cls
         /\ \A k \in 1..Len(a.sub) : ImplContainsSetObject(b, a.sub[k])
         /\ \A k \in 1..Len(b.sub) : ImplContainsSetObject(a, b.sub[k])
    \* ... all(el in other for el in self) ...: elements are numbers, `in` is tuple membership
    [] a.cls = "FiniteSet" ->
         /\ b.cls = a.cls
         /\ {a.q[1][i] : i \in 1..Len(a.q[1])} = {b.q[1][i] : i \in 1..Len(b.q[1])}
    \* other is self, isinstance, np.all(min == min) and np.all(max == max)   -- NO length check
    [] a.cls = "IntervalProd" ->
         same \/ (b.cls = "IntervalProd" /\ BroadcastAllEq(a.q[1], b.q[1]) /\ BroadcastAllEq(a.q[2], b.q[2]))
    \* other is self, type is type, shape == shape, np.array_equal per axis
    [] a.cls = "RectGrid" -> same \/ (b.cls = "RectGrid" /\ a.q = b.q)
    [] a.cls = "RectPartition" ->
         same \/ (b.cls = "RectPartition" /\ ImplEq(a.sub[1], b.sub[1], FALSE) /\ ImplEq(a.sub[2], b.sub[2], FALSE))
    \* ConstWeighting: other is self, base eq, const == getattr(other, 'const', None)
    [] a.cls \in ConstW -> same \/ (WBaseEq(a, b) /\ b.cls \in ConstW /\ WConstOf(a) = WConstOf(b))
    \* ArrayWeighting: other is self, base eq, self.array is getattr(other, 'array', None)
    [] a.cls \in ArrayW -> same \/ (WBaseEq(a, b) /\ b.cls \in ArrayW /\ a.id = b.id)
    \* Custom*: base eq and self.inner == other.inner (a bound method of another class never equals the callable)
    [] a.cls \in CInnerW -> WBaseEq(a, b) /\ b.cls \in CInnerW /\ a.s = b.s
    [] a.cls \in CNormW  -> WBaseEq(a, b) /\ b.cls \in CNormW /\ a.s = b.s
    [] a.cls \in CDistW  -> WBaseEq(a, b) /\ b.cls \in CDistW /\ a.s = b.s
    \* NumpyTensorSpace: other is self, type is type, shape, dtype, weighting == weighting
    [] a.cls = "Tensor" ->
         same \/ (b.cls = "Tensor" /\ a.q = b.q /\ a.s = b.s /\ ImplEq(a.sub[1], b.sub[1], FALSE))
    \* DiscretizedSpace: other is self, None, TensorSpace.__eq__ (type, shape, dtype), tspace, partition
    [] a.cls = "Discr" ->
         same \/ (/\ b.cls = "Discr"
                  /\ ShapeOf(a) = ShapeOf(b) /\ DtypeOf(a) = DtypeOf(b)
                  /\ ImplEq(b.sub[2], a.sub[2], FALSE) /\ ImplEq(b.sub[1], a.sub[1], FALSE))
    \* ProductSpace: other is self, isinstance, len, weighting == weighting, all(x == y)
    [] a.cls = "PSpace" ->
         same \/ (/\ b.cls = "PSpace" /\ Len(a.sub) = Len(b.sub)
                  /\ \A k \in 1..Len(a.sub) : ImplEq(a.sub[k], b.sub[k], FALSE))

(* ------------------------------- hashing -------------------------------- *)
RECURSIVE ImplHashRaises(_), ImplHashKey(_)
\* hash((type(self), set(...)))  -- a `set` is unhashable
ImplHashRaises(a) ==
  \/ a.cls \in {"SetUnion", "SetIntersection", "FiniteSet"}
  \/ (a.cls \in {"CartesianProduct", "RectPartition", "Tensor", "Discr", "PSpace"}
      /\ \E k \in 1..Len(a.sub) : ImplHashRaises(a.sub[k]))

RECURSIVE FlatKeys(_, _)
FlatKeys(subs, k) == IF k > Len(subs) THEN <<>> ELSE ImplHashKey(subs[k]) \o <<"|">> \o FlatKeys(subs, k + 1)

\* zero coordinates stored as -0.0 have other bytes than 0.0
HasZero(a) == \E v \in 1..Len(a.q) : \E i \in 1..Len(a.q[v]) : a.q[v][i] = QZero

ImplHashKey(a) ==
  CASE a.cls \in {"EmptySet", "UniversalSet", "RealNumbers", "ComplexNumbers", "Integers"} -> <<a.cls>>
    [] a.cls = "Strings"          -> <<a.cls, ToString(a.q)>>                       \* (type, length)
    [] a.cls = "CartesianProduct" -> <<a.cls, "(">> \o FlatKeys(a.sub, 1) \o <<")">>   \* (type, sets)
    [] a.cls = "IntervalProd"     -> <<a.cls, ToString(a.q)>>                       \* (type, tuple(min), tuple(max))
    \* (type, tuple(cv.tobytes())): the BYTES, so the sign of a zero matters
    [] a.cls = "RectGrid"         -> <<a.cls, ToString(a.q), IF HasZero(a) THEN a.s ELSE "">>
    [] a.cls = "RectPartition"    -> <<a.cls, "(">> \o FlatKeys(a.sub, 1) \o <<")">>   \* (type, set, grid)
    \* hash((Weighting.__hash__ = (type, impl, exponent), const))
    [] a.cls \in ConstW  -> <<a.cls, ToString(a.q)>>
    \* (type, array.tobytes(), exponent) resp. ((type, impl, exponent), array.tobytes())
    [] a.cls \in ArrayW  -> <<a.cls, ToString(a.q)>>
    [] a.cls \in CInnerW \cup CNormW \cup CDistW -> <<a.cls, ToString(a.q), a.s>>   \* (..., callable)
    \* ((type, shape, dtype), weighting)
    [] a.cls = "Tensor" -> <<a.cls, ToString(a.q), a.s, "(">> \o FlatKeys(a.sub, 1) \o <<")">>
    \* ((type, shape, dtype), tspace, partition)
    [] a.cls = "Discr"  -> <<a.cls, ToString(ShapeOf(a)), DtypeOf(a), "(">> \o FlatKeys(a.sub, 1) \o <<")">>
    \* (type, spaces, weighting)
    [] a.cls = "PSpace" -> <<a.cls, "(">> \o FlatKeys(a.sub, 1) \o <<")">>
    [] OTHER -> <<a.cls, "?">>

\* x in S for an element x of space xs:  getattr(other, 'space', None) == self
ImplSpaceContains(S, xs, same) == ImplEq(xs, S, same)

(* ---------------- cells where the pinned code leaves the laws / layer A -- *)
RECURSIVE HasCls(_, _)
HasCls(a, C) == a.cls \in C \/ \E k \in 1..Len(a.sub) : HasCls(a.sub[k], C)
\* K1  SetUnion / SetIntersection: `set_ in other` tests MEMBERSHIP of the subset object, never true
HasUnorderedSet(a) == HasCls(a, UnorderedCls)
\* K2  IntervalProd: comparison broadcasts over different numbers of axes
HasIntv(a) == HasCls(a, {"IntervalProd"})
\* K3  weightings: == ignores the class (tensor-space vs product-space flavour), the hash does not
HasWeighting(a) == HasCls(a, WeightingClasses)
\* K4  RectGrid: == compares numbers, the hash bytes (0.0 vs -0.0)
RECURSIVE HasNegZeroGrid(_)
HasNegZeroGrid(a) == (a.cls = "RectGrid" /\ a.s = "negzero" /\ HasZero(a))
                     \/ \E k \in 1..Len(a.sub) : HasNegZeroGrid(a.sub[k])
=============================================================================

----------------------------- MODULE EqHashImpl -----------------------------
(***************************************************************************)
(* Layer C for property C20: every __eq__ / __hash__ / __contains__ pair of *)
(* the anchored classes transcribed AS WRITTEN on the current tree:          *)
(*   odl/set/sets.py, odl/set/domain.py:IntervalProd, odl/discr/grid.py,    *)
(*   odl/discr/partition.py, odl/space/weighting.py (+ the numpy / product  *)
(*   space subclasses), odl/space/base_tensors.py, npy_tensors.py,          *)
(*   odl/discr/discr_space.py, odl/space/pspace.py                          *)
(* which fields are compared, which go into the hash, where `other is self` *)
(* short-cuts, where isinstance / type(..) is used.                         *)
(*                                                                         *)
(* ImplEq(a, b, same): a == b, `same` = the two operands are one object.    *)
(* ImplHashKey(a): a sequence of strings such that two objects have the     *)
(* same Python hash iff their keys are equal (up to accidental collisions); *)
(* ImplHashRaises(a): hash() raises TypeError.                              *)
(***************************************************************************)
EXTENDS SetSem

\* tuple membership `x in t` of an object x: any(y is x or y == x for y in t).  `same` = the tuple belongs to
\* the very object x is taken from, at position k (so that y is x there)
\* Weighting.__eq__ (base): isinstance(other, Weighting) and impl == impl and exponent == exponent
WBaseEq(a, b) == IsWeighting(b) /\ WExp(a) = WExp(b)

RECURSIVE ImplEq(_, _, _)
ImplEq(a, b, same) ==
  CASE a.cls = "EmptySet"       -> b.cls = "EmptySet"                       \* isinstance
    [] a.cls = "UniversalSet"   -> b.cls = "UniversalSet"
    [] a.cls = "Strings"        -> b.cls = "Strings" /\ a.q = b.q
    [] a.cls \in {"RealNumbers", "ComplexNumbers", "Integers"} -> same \/ b.cls = a.cls
    \* type(self) == type(other) and self.sets == other.sets   (tuple ==: `is` or == per item)
    [] a.cls = "CartesianProduct" ->
         /\ b.cls = a.cls /\ Len(a.sub) = Len(b.sub)
         /\ \A k \in 1..Len(a.sub) : same \/ ImplEq(a.sub[k], b.sub[k], FALSE)
    \* type(self) == type(other) and all(set_ in other.sets for set_ in self.sets)
    \*                            and all(set_ in self.sets for set_ in other.sets)       (commit 002ad7b)
    [] a.cls \in {"SetUnion", "SetIntersection"} ->
         /\ b.cls = a.cls
         /\ \A k \in 1..Len(a.sub) : same \/ \E j \in 1..Len(b.sub) : ImplEq(b.sub[j], a.sub[k], FALSE)
         /\ \A k \in 1..Len(b.sub) : same \/ \E j \in 1..Len(a.sub) : ImplEq(a.sub[j], b.sub[k], FALSE)
    \* ... all(el in other for el in self) ...: elements are numbers, `in` is tuple membership
    [] a.cls = "FiniteSet" ->
         /\ b.cls = a.cls
         /\ {a.q[1][i] : i \in 1..Len(a.q[1])} = {b.q[1][i] : i \in 1..Len(b.q[1])}
    \* other is self, isinstance, ndim == ndim and np.all(min == min) and np.all(max == max)   (commit c1a084b)
    [] a.cls = "IntervalProd" ->
         same \/ (b.cls = "IntervalProd" /\ Len(a.q[1]) = Len(b.q[1]) /\ a.q = b.q)
    \* other is self, type is type, shape == shape, np.array_equal per axis
    [] a.cls = "RectGrid" -> same \/ (b.cls = "RectGrid" /\ a.q = b.q)
    [] a.cls = "RectPartition" ->
         same \/ (b.cls = "RectPartition" /\ ImplEq(a.sub[1], b.sub[1], FALSE) /\ ImplEq(a.sub[2], b.sub[2], FALSE))
    \* ConstWeighting: other is self, base eq, const == getattr(other, 'const', None)
    [] a.cls \in ConstW -> same \/ (WBaseEq(a, b) /\ b.cls \in ConstW /\ WConstOf(a) = WConstOf(b))
    \* ArrayWeighting: other is self, base eq, self.array is getattr(other, 'array', None)
    [] a.cls \in ArrayW -> same \/ (WBaseEq(a, b) /\ b.cls \in ArrayW /\ a.id = b.id)
    \* Custom*: base eq and self.inner == other.inner (a bound method of another class never equals the callable)
    [] a.cls \in CInnerW -> WBaseEq(a, b) /\ b.cls \in CInnerW /\ a.s = b.s
    [] a.cls \in CNormW  -> WBaseEq(a, b) /\ b.cls \in CNormW /\ a.s = b.s
    [] a.cls \in CDistW  -> WBaseEq(a, b) /\ b.cls \in CDistW /\ a.s = b.s
    \* NumpyTensorSpace: other is self, type is type, shape, dtype, weighting == weighting
    [] a.cls = "Tensor" ->
         same \/ (b.cls = "Tensor" /\ a.q = b.q /\ a.s = b.s /\ ImplEq(a.sub[1], b.sub[1], FALSE))
    \* DiscretizedSpace: other is self, None, TensorSpace.__eq__ (type, shape, dtype), tspace, partition
    [] a.cls = "Discr" ->
         same \/ (/\ b.cls = "Discr"
                  /\ ShapeOf(a) = ShapeOf(b) /\ DtypeOf(a) = DtypeOf(b)
                  /\ ImplEq(b.sub[2], a.sub[2], FALSE) /\ ImplEq(b.sub[1], a.sub[1], FALSE))
    \* ProductSpace: other is self, isinstance, len, weighting == weighting, all(x == y)
    [] a.cls = "PSpace" ->
         same \/ (/\ b.cls = "PSpace" /\ Len(a.sub) = Len(b.sub)
                  /\ \A k \in 1..Len(a.sub) : ImplEq(a.sub[k], b.sub[k], FALSE))

(* ------------------------------- hashing -------------------------------- *)
(* A hash key is a record [c |-> STRING, s |-> STRING, k |-> set of <<position, key>>]: ordered components    *)
(* carry their position, the members of a frozenset all carry position 0 (order and duplicates irrelevant). *)
HK(c, str, subs) == [c |-> c, s |-> str, k |-> subs]
RECURSIVE ImplHashKey(_)
Ordered(subs)   == {<<j, ImplHashKey(subs[j])>> : j \in 1..Len(subs)}
Unordered(subs) == {<<0, ImplHashKey(subs[j])>> : j \in 1..Len(subs)}
\* since commit 002ad7b nothing in the universe has a raising hash (frozenset of hashable sets / numbers)
ImplHashRaises(a) == FALSE

ImplHashKey(a) ==
  CASE a.cls \in {"EmptySet", "UniversalSet", "RealNumbers", "ComplexNumbers", "Integers"} -> HK(a.cls, "", {})
    [] a.cls = "Strings"          -> HK(a.cls, ToString(a.q), {})                  \* (type, length)
    [] a.cls = "CartesianProduct" -> HK(a.cls, "", Ordered(a.sub))                 \* (type, sets)
    \* (type, frozenset(sets)) / (type, frozenset(elements))
    [] a.cls \in {"SetUnion", "SetIntersection"} -> HK(a.cls, "", Unordered(a.sub))
    [] a.cls = "FiniteSet"        -> HK(a.cls, "", {<<0, HK("number", ToString(a.q[1][j]), {})>> : j \in 1..Len(a.q[1])})
    [] a.cls = "IntervalProd"     -> HK(a.cls, ToString(a.q), {})                  \* (type, tuple(min), tuple(max))
    \* (type, tuple((cv + 0.0).tobytes())): the sign of a zero no longer matters (commit bb4c1d7)
    [] a.cls = "RectGrid"         -> HK(a.cls, ToString(a.q), {})
    [] a.cls = "RectPartition"    -> HK(a.cls, "", Ordered(a.sub))                 \* (type, set, grid)
    \* Weighting.__hash__ = hash((Weighting, impl, exponent)) -- no concrete class (commit 2feff29);
    \* const: (base, const);  array: (base, array.tobytes()) for both flavours;  custom: (base, callable)
    [] a.cls \in ConstW  -> HK("Weighting", ToString(a.q), {})
    [] a.cls \in ArrayW  -> HK("Weighting", ToString(a.q), {})
    [] a.cls \in CInnerW \cup CNormW \cup CDistW -> HK("Weighting", ToString(a.q), {<<0, HK("callable", a.s, {})>>})
    \* ((type, shape, dtype), weighting)
    [] a.cls = "Tensor" -> HK(a.cls, ToString(a.q) \o a.s, Ordered(a.sub))
    \* ((type, shape, dtype), tspace, partition)
    [] a.cls = "Discr"  -> HK(a.cls, ToString(ShapeOf(a)) \o DtypeOf(a), Ordered(a.sub))
    \* (type, spaces, weighting)
    [] a.cls = "PSpace" -> HK(a.cls, "", Ordered(a.sub))
    [] OTHER -> HK(a.cls, "?", {})

\* x in S for an element x of space xs:  getattr(other, 'space', None) == self
ImplSpaceContains(S, xs, same) == ImplEq(xs, S, same)

(* No cell is left where the model of the current code leaves the laws or layer A: the former cells        *)
(* K1 (SetUnion / SetIntersection ==), K2 (IntervalProd broadcasting), K3 (class in the weighting hash) and *)
(* K4 (-0.0 bytes in the RectGrid hash) were repaired in /repo (commits 002ad7b, c1a084b, 2feff29, bb4c1d7). *)
RECURSIVE HasCls(_, _)
HasCls(a, C) == a.cls \in C \/ \E k \in 1..Len(a.sub) : HasCls(a.sub[k], C)
=============================================================================

----------------------------- MODULE CbFullImpl -----------------------------
(***************************************************************************)
(* Layer C (extension stage "cbfull"): the bodies of __call__ and reset of  *)
(* odl/solvers/util/callback.py AS WRITTEN - where the `iter` counter is    *)
(* incremented relative to the `step` test, what reset assigns - on the     *)
(* same expressions and histories as CbFullMachine.  Lists are heap objects *)
(* (identity matters: CallbackStore.reset REBINDS self.results to a new     *)
(* list).  TLC checks that the code-shaped machine refines layer A          *)
(* (ImplRefines) and pins the one place where it does not (CallerListFollows*)
(* is expected to FAIL while the code is as it is: MC_CbFullImpl_quirk).    *)
(*                                                                         *)
(*   class                       __call__                        reset      *)
(*   Store/Apply/PrintIteration/ if iter % step == 0: act        iter = 0   *)
(*   Print/PrintTiming/Show/     iter += 1                       (Store:    *)
(*   SaveToDisk                                                  results = [] *)
(*                                                               Timing:    *)
(*                                                               start_time = now *)
(*                                                               Show: fig = None) *)
(*   ProgressBar                 iter += 1                       iter = 0,  *)
(*                               if iter % step == 0: update(step)  new bar *)
(*   ShowConvergence             scatter(iter, f(x)); iter += 1  iter = 0   *)
(*   PrintNorm / Sleep           act, no counter                 pass       *)
(*   _CallbackAnd                for p in callbacks: p(x)        all        *)
(*     (a non-Callback operand is wrapped: CallbackApply(c), step 1)        *)
(*   _CallbackCompose            callback(operator(x))           inner      *)
(***************************************************************************)
EXTENDS CbFullSem

CONSTANTS Shapes, Values, MaxLen

VARIABLES shape, hist,
          iter,      \* per leaf: self.iter (0 for classes without the attribute)
          ptr,       \* per leaf: identity of the list self.results is bound to (store)
          heap,      \* list identity -> contents
          emitted    \* per leaf: what the act-branch has done so far <<j, it, val>>
ivars == <<shape, hist, iter, ptr, heap, emitted>>

LL == Leaves(shape, 1)
NL == Len(LL)

\* the constructor binds self.results to the caller's list (identity i) or to a new one (identity i as well: each leaf
\* owns at most one list at construction); later lists get identities NL + 1, NL + 2, ...
Init == /\ shape \in Shapes
        /\ hist = <<>>
        /\ iter = [i \in 1..Len(Leaves(shape, 1)) |-> 0]
        /\ ptr = [i \in 1..Len(Leaves(shape, 1)) |-> i]
        /\ heap = [i \in 1..Len(Leaves(shape, 1)) |-> <<>>]
        /\ emitted = [i \in 1..Len(Leaves(shape, 1)) |-> <<>>]

PreTestKinds == {"store", "apply", "printiter", "print", "timing", "save", "show"}

\* the value the act-branch handles, as written
ActVal(lf, it, x) ==
  CASE lf.k = "store" -> IF lf.opt = "func" THEN Fn(x) ELSE x         \* function(result) / copy.copy(result)
    [] lf.k = "print" -> IF lf.opt = "func" THEN Fn(x) ELSE x         \* if self.func is not None: result = self.func(result)
    [] lf.k \in {"printiter", "timing"} -> 0                           \* fmt.format(self.iter) / fmt.format(now - start_time)
    [] lf.k = "progress" -> lf.step                                    \* self.pbar.update(self.step)
    [] OTHER -> x
ActIt(lf, it) == IF lf.k \in {"printiter", "save", "show", "showconv"} THEN it ELSE -1

\* one leaf's __call__ on x at history position j: -> [iter, act (sequence of <= 1 emission)]
LeafCall(lf, it, x, j) ==
  IF lf.k \in PreTestKinds
    THEN [iter |-> it + 1,
          act  |-> IF it % lf.step = 0 THEN << <<j, ActIt(lf, it), ActVal(lf, it, x)>> >> ELSE <<>>]
  ELSE IF lf.k = "progress"
    THEN LET it1 == it + 1 IN
         [iter |-> it1, act |-> IF it1 % lf.step = 0 THEN << <<j, -1, ActVal(lf, it1, x)>> >> ELSE <<>>]
  ELSE IF lf.k = "showconv"
    THEN [iter |-> it + 1, act |-> << <<j, it, x>> >>]
  ELSE IF lf.k = "raw"                      \* wrapped: CallbackApply(c): if self.iter % 1 == 0: c(x); self.iter += 1
    THEN [iter |-> it + 1, act |-> IF it % 1 = 0 THEN << <<j, -1, x>> >> ELSE <<>>]
  ELSE IF lf.k = "sleep" THEN [iter |-> it, act |-> <<>>]
  ELSE [iter |-> it, act |-> << <<j, -1, x>> >>]          \* printnorm

Call(v) ==
  /\ Len(hist) < MaxLen
  /\ LET j == Len(hist) + 1
         R == [i \in 1..NL |-> LeafCall(LL[i].leaf, iter[i], v * LL[i].scale, j)]
     IN /\ iter' = [i \in 1..NL |-> R[i].iter]
        /\ emitted' = [i \in 1..NL |-> emitted[i] \o R[i].act]
        /\ heap' = [p \in DOMAIN heap |->
                      IF \E i \in 1..NL : LL[i].leaf.k = "store" /\ ptr[i] = p /\ R[i].act # <<>>
                      THEN LET i == CHOOSE i \in 1..NL : LL[i].leaf.k = "store" /\ ptr[i] = p IN Append(heap[p], R[i].act[1][3])
                      ELSE heap[p]]
  /\ hist' = Append(hist, [a |-> "call", v |-> v])
  /\ UNCHANGED <<shape, ptr>>

\* the body of CallbackStore.reset as it is in the tree: TRUE = `self.results = []` (pinned tree, finding KF-EXT-CBF-1);
\* set to FALSE when the repair `del self.results[:]` is applied (then MC_CbFullImpl_quirk finds no counter-example)
StoreResetRebinds == FALSE      \* repaired in /repo (0cfddcf): del self.results[:]

StoreIdx == { i \in 1..NL : LL[i].leaf.k = "store" }
\* rank of a store leaf among the store leaves (to hand out fresh list identities deterministically)
Rank(i) == Cardinality({ q \in StoreIdx : q <= i })

Reset ==
  /\ Len(hist) < MaxLen
  /\ iter' = [i \in 1..NL |-> 0]                                  \* every class with a counter: self.iter = 0
  /\ IF StoreResetRebinds
     THEN LET base == Len(heap) IN
       \* CallbackStore.reset: self.results = []   (a NEW list; the old one keeps its contents)
       /\ ptr' = [i \in 1..NL |-> IF i \in StoreIdx THEN base + Rank(i) ELSE ptr[i]]
       /\ heap' = heap \o [q \in 1..Cardinality(StoreIdx) |-> <<>>]
     ELSE \* repaired body: del self.results[:]   (cleared in place)
       /\ ptr' = ptr
       /\ heap' = [p \in DOMAIN heap |-> IF \E i \in StoreIdx : ptr[i] = p THEN <<>> ELSE heap[p]]
  /\ hist' = Append(hist, [a |-> "reset", v |-> 0])
  /\ UNCHANGED <<shape, emitted>>

Next == (\E v \in Values : Call(v)) \/ Reset
Spec == Init /\ [][Next]_ivars

(* ------------------------- refinement of layer A ------------------------ *)
ImplRefines ==
  LET O == Obs(shape, hist) IN
  \A i \in 1..NL :
     /\ (LL[i].leaf.k \in CounterKinds => iter[i] = O.cnt[i])
     /\ emitted[i] = O.strm[i]
     /\ (LL[i].leaf.k = "store" => heap[ptr[i]] = O.res[i])          \* what len / iter / getitem of the object show

\* the caller-owned list (identity i, bound at construction) is "the list in which to store the iterates" and reset
\* "clears the results list".  NOT true of the code as written (reset rebinds): expected to be violated.
CallerListFollows ==
  LET O == Obs(shape, hist) IN
  \A i \in 1..NL : (LL[i].leaf.k = "store" /\ LL[i].leaf.opt = "caller") => heap[i] = O.res[i]
=============================================================================

--------------------------- MODULE FuncRulesImpl ---------------------------
(***************************************************************************)
(* Layer C for C07 / C08 / C09: the propagation rules of ODL's functional  *)
(* classes TRANSCRIBED AS WRITTEN (odl/solvers/functional/functional.py,   *)
(* default_functionals.py, nonsmooth/proximal_operators.py at the pinned   *)
(* tree), to be compared with layer A by TLC:                              *)
(*                                                                         *)
(*   ConjImpl(sp, f)      the expression `f.convex_conj` builds            *)
(*   ProxImpl(sp,f,sg,x)  the point `f.proximal(sigma)(x)` computes        *)
(*   GradImpl(sp, f, x)   the element `f.gradient(x)` computes             *)
(*   LipImpl(sp, f)       the number `f.grad_lipschitz` holds              *)
(*                                                                         *)
(* Results: a value, or a token  Raises (the code raises here), NoImpl     *)
(* (NotImplementedError / default object that cannot be evaluated),        *)
(* Irr (the closed form needs an irrational number on this input).         *)
(* This module mirrors the CURRENT code (tree 9094470, i.e. after the fix   *)
(* commits 93a6993 12612f1 f40686e ebaa6fa f0c0e99 4cda57d 9094470)         *)
(* including its open defect (KF-C07-1/2: proj_l1 ignores the weighting);  *)
(* the comparison operators at the end list every cell where C differs     *)
(* from A.                                                                 *)
(***************************************************************************)
EXTENDS FuncSem

\* tokens have the KIND of the value they replace (TLC cannot compare values of different kinds):
\* vector results: a 1-tuple holding a pair with denominator 0 ; expression results: a leaf record
Raises == <<<<2, 0>>>>          \* the code raises on this input
NoImpl == <<<<3, 0>>>>          \* NotImplementedError / nothing to evaluate
Irr    == <<<<4, 0>>>>          \* the closed form is irrational here
NoVec  == <<<<5, 0>>>>          \* float(sigma): the class takes scalar steps only (as documented)
IsTok(v) == Len(v) = 1 /\ v[1][2] = 0 /\ v[1][1] >= 2
ERaises == Leaf("#raises")
ENoImpl == Leaf("#noimpl")
EIrr    == Leaf("#irr")
IsTokE(f) == f.op \in {"#raises", "#noimpl", "#irr"}
MkC(f)   == Mk("Conj", QZero, QZero, <<>>, <<>>, <<f>>)     \* FunctionalDefaultConvexConjugate(f)
RInv(v)  == Strict([i \in 1..Len(v) |-> QInv(v[i])])

(* ------------------------------ convex_conj ----------------------------- *)
ConjExp(f) == IF PExp(f) = 1 THEN Inf ELSE IF PExp(f) = 3 THEN QOne ELSE QI(2)
RECURSIVE ConjImpl(_, _), Impl(_, _)
\* the ODL object an abstract program denotes: every "Conj" node is what .convex_conj returned
Impl(sp, f) ==
  IF IsLeaf(f) THEN f
  ELSE IF f.op = "Conj" THEN ConjImpl(sp, Impl(sp, Arg(f)))
  ELSE IF f.op = "SepSum" THEN [f EXCEPT !.args = <<Impl(Part(sp, 1), Arg(f)), Impl(Part(sp, 2), Arg2(f))>>]
  ELSE [f EXCEPT !.args = Strict([k \in 1..Len(f.args) |-> Impl(sp, f.args[k])])]

ConjImpl(sp, f) ==
  CASE f.op = "L1"   -> Leaf("IndBallInf")              \* LpNorm.convex_conj: IndicatorLpUnitBall(conj_exponent(p))
    [] f.op = "L2"   -> Leaf("IndBall2")
    [] f.op = "Linf" -> Leaf("IndBall1")
    [] f.op = "IndBallInf" -> Leaf("L1")                \* IndicatorLpUnitBall.convex_conj
    [] f.op = "IndBall2"   -> Leaf("L2")
    [] f.op = "IndBall1"   -> Leaf("Linf")
    \* conj_exponent(pointwise exponent): 1 <-> inf, 2 <-> 2
    [] f.op = "GroupL1"      -> LeafS("IndGroupBall", ConjExp(f))
    [] f.op = "IndGroupBall" -> LeafS("GroupL1", ConjExp(f))
    [] f.op = "L2sq"  -> Mk("LScale", Q(1, 4), QZero, <<>>, <<>>, <<Leaf("L2sq")>>)   \* (1.0 / 4) * L2NormSquared
    [] f.op = "Const" -> LeafSC("IndZero", QZero, QNeg(f.c))       \* IndicatorZero(domain, -constant)
    [] f.op = "IndZero" -> LeafSC("Const", QZero, QNeg(f.c))       \* ConstantFunctional(domain, -constant)
    [] f.op = "KL"    -> [f EXCEPT !.op = "KLcc"]
    [] f.op = "KLcc"  -> [f EXCEPT !.op = "KL"]
    [] f.op = "Huber" ->    \* FunctionalQuadraticPerturb(norm.convex_conj, quadratic_coeff=gamma / 2)
         Mk("QuadPert", QHalf(f.s), QZero, <<>>, <<>>,
            <<IF IsVF(sp) THEN Leaf("IndGroupBall") ELSE Leaf("IndBallInf")>>)
    [] f.op = "Quad"  ->    \* QuadraticForm.convex_conj, as written
         IF f.v = <<>>
           THEN Mk("Translate", QZero, QZero, <<>>, f.u, <<LeafSC("IndZero", QZero, QNeg(f.c))>>)
         ELSE IF f.u = <<>>
           THEN Mk("Quad", QZero, QNeg(f.c), RScal(Q(1, 4), RInv(f.v)), <<>>, <<>>)   \* QuadraticForm(0.25 * operator.inverse, constant=-c)
         ELSE LET ib == RDiv(f.u, f.v)                                       \* opinv(vector) ( = opinv.adjoint(vector) )
              IN Mk("Quad", QZero, QSub(QMul(Q(1, 4), Inner(sp, f.u, ib)), f.c), RScal(Q(1, 4), RInv(f.v)),
                    RScal(Q(-1, 4), RAdd(ib, ib)), <<>>)                     \* -0.25 * (opinv.adjoint(b) + opinv(b))
    (* derived classes *)
    [] f.op = "LScale" ->   \* self.scalar * self.functional.convex_conj * (1.0 / self.scalar)
         IF f.s[1] <= 0 THEN ERaises
         ELSE LET c == ConjImpl(sp, Arg(f)) IN
              IF IsTokE(c) THEN c
              ELSE Mk("ArgScale", QInv(f.s), QZero, <<>>, <<>>, <<Mk("LScale", f.s, QZero, <<>>, <<>>, <<c>>)>>)
    [] f.op = "ArgScale" -> \* self.functional.convex_conj * (1 / self.scalar)
         LET c == ConjImpl(sp, Arg(f)) IN
         IF IsTokE(c) THEN c ELSE Mk("ArgScale", QInv(f.s), QZero, <<>>, <<>>, <<c>>)
    [] f.op = "RVec" ->     \* self.functional.convex_conj * (1.0 / self.vector)
         LET c == ConjImpl(sp, Arg(f)) IN
         IF IsTokE(c) THEN c ELSE Mk("RVec", QZero, QZero, RInv(f.v), <<>>, <<c>>)
    [] f.op = "AddConst" -> \* self.left.convex_conj - self.scalar
         LET c == ConjImpl(sp, Arg(f)) IN
         IF IsTokE(c) THEN c ELSE Mk("AddConst", QZero, QNeg(f.c), <<>>, <<>>, <<c>>)
    [] f.op = "Translate" -> \* FunctionalQuadraticPerturb(self.functional.convex_conj, linear_term=self.translation)
         LET c == ConjImpl(sp, Arg(f)) IN
         IF IsTokE(c) THEN c ELSE Mk("QuadPert", QZero, QZero, <<>>, f.u, <<c>>)
    [] f.op = "QuadPert" ->
         IF f.s # QZero THEN MkC(f)                      \* super().convex_conj : default object
         ELSE LET c == ConjImpl(sp, Arg(f)) IN
              IF IsTokE(c) THEN c
              ELSE LET t == Mk("Translate", QZero, QZero, <<>>,
                               IF f.u = <<>> THEN RConst(Dim(sp), QZero) ELSE f.u, <<c>>)
                   IN IF f.c = QZero THEN t ELSE Mk("AddConst", QZero, QNeg(f.c), <<>>, <<>>, <<t>>)
    [] f.op = "Bregman" ->  \* convex_conj of FunctionalQuadraticPerturb(f, linear_term=-subgrad, constant=-f(point)+<subgrad,point>)
         LET fy == Val(sp, Arg(f), f.v) IN
         IF ~XKnown(fy) THEN EIrr
         ELSE ConjImpl(sp, Mk("QuadPert", QZero, QAdd(QNeg(fy), Inner(sp, f.u, f.v)), <<>>, RNeg(f.u), <<Arg(f)>>))
    [] f.op = "InfConv" ->  \* self.left.convex_conj + self.right.convex_conj
         LET c1 == ConjImpl(sp, Arg(f))  c2 == ConjImpl(sp, Arg2(f)) IN
         IF IsTokE(c1) THEN c1 ELSE IF IsTokE(c2) THEN c2 ELSE Mk("Sum", QZero, QZero, <<>>, <<>>, <<c1, c2>>)
    [] f.op = "SepSum" ->   \* SeparableSum(*[func.convex_conj for func in functionals])
         LET c1 == ConjImpl(Part(sp, 1), Arg(f))  c2 == ConjImpl(Part(sp, 2), Arg2(f)) IN
         IF IsTokE(c1) THEN c1 ELSE IF IsTokE(c2) THEN c2 ELSE Mk("SepSum", QZero, QZero, <<>>, <<>>, <<c1, c2>>)
    [] f.op = "Conj" -> Arg(f)                           \* FunctionalDefaultConvexConjugate.convex_conj: the original
    [] f.op \in {"IndSum", "IndSimplex"} -> ENoImpl       \* raise NotImplementedError
    [] OTHER -> MkC(f)                                   \* Functional.convex_conj : default object
\* ODL can evaluate the object: no default conjugate and no infimal convolution inside
RECURSIVE Evaluable(_)
Evaluable(f) == IF IsTokE(f) THEN FALSE
                ELSE IF f.op \in {"Conj", "InfConv"} THEN FALSE
                ELSE \A k \in 1..Len(f.args) : Evaluable(f.args[k])

(* ------------------------------- proximal ------------------------------- *)
\* proj_simplex(x, diameter) for unsorted x : sort descending, critical index, shift and threshold
RECURSIVE SortDesc(_)
SortDesc(s) == IF Len(s) <= 1 THEN s
               ELSE LET j == CHOOSE j \in 1..Len(s) : \A k \in 1..Len(s) : QLe(s[k], s[j])
                        rest == Strict([k \in 1..Len(s) - 1 |-> IF k < j THEN s[k] ELSE s[k + 1]])
                    IN <<s[j]>> \o SortDesc(rest)
RECURSIVE PrefixSum(_, _)
PrefixSum(s, j) == IF j = 0 THEN QZero ELSE QAdd(s[j], PrefixSum(s, j - 1))
ProjSimplex(x, diam) ==
  LET n == Len(x)
      xs == SortDesc(x)
      avg == Strict([j \in 1..n |-> QDiv(QSub(PrefixSum(xs, j), diam), QI(j))])      \* (1 / j) * (cumsum - diameter)
      I == {j \in 1..n : QGe(QSub(xs[j], avg[j]), QZero)}                           \* crit >= 0
      i == CHOOSE i \in I : \A j \in I : j <= i                                     \* .max()
  IN Strict([k \in 1..n |-> QMax(QSub(x[k], avg[i]), QZero)])
\* proj_l1(x, radius): note  u.ufuncs.sum()  is the plain sum, the space weighting does not enter
ProjL1(x, radius) ==
  LET u == Strict([i \in 1..Len(x) |-> QAbs(x[i])]) IN
  IF QLe(RSumAll(u), radius) THEN x
  ELSE LET q == ProjSimplex(u, radius) IN Strict([i \in 1..Len(x) |-> QMul(QSign(x[i]), q[i])])

AllEq(sg) == \A i \in 1..Len(sg) : sg[i] = sg[1]
RECURSIVE ProxImpl(_, _, _, _)
\* sg: vector of steps ; classes that call float(sigma) need a scalar step (AllEq)
ProxImpl(sp, f, sg, x) ==
  LET n == Len(x) IN
  CASE f.op = "L1" ->       \* proximal_l1: x - x / max(|x| / (sigma lam), 1)
         Strict([i \in 1..n |-> QSub(x[i], QDiv(x[i], QMax(QDiv(QAbs(x[i]), sg[i]), QOne)))])
    [] f.op = "L2sq" ->     \* proximal_l2_squared: x / (1 + 2 sigma lam)
         Strict([i \in 1..n |-> QDiv(x[i], QAdd(QOne, QMul(QI(2), sg[i])))])
    [] f.op = "L2" ->       \* proximal_l2: step = sigma / x.norm() ; (1 - step) x  or  0
         IF ~AllEq(sg) THEN NoVec
         ELSE LET r == XSqrt(NormSq(sp, x)) IN
              IF ~XKnown(r) THEN Irr
              ELSE IF r = QZero THEN x
              ELSE LET step == QDiv(sg[1], r) IN
                   IF QLt(step, QOne) THEN RScal(QSub(QOne, step), x) ELSE RConst(n, QZero)
    [] f.op = "Linf" ->     \* proximal_linfty: x - proj_l1(x, sigma)
         IF ~AllEq(sg) THEN NoVec ELSE RSub(x, ProjL1(x, sg[1]))
    [] f.op = "IndBall1" -> ProjL1(x, QOne)             \* proximal_convex_conj_linfty
    [] f.op = "IndBallInf" ->  \* proximal_convex_conj_l1: x / max(1, |x|)
         Strict([i \in 1..n |-> QDiv(x[i], QMax(QOne, QAbs(x[i])))])
    [] f.op = "IndBall2" -> \* proximal_convex_conj(proximal_l2): x - sigma prox_{l2, 1/sigma}(x / sigma)
         IF ~AllEq(sg) THEN NoVec
         ELSE LET q == ProxImpl(sp, Leaf("L2"), RConst(n, QInv(sg[1])), RScal(QInv(sg[1]), x)) IN
              IF IsTok(q) THEN q ELSE RSub(x, RScal(sg[1], q))
    [] f.op = "GroupL1" ->  \* exponent 1: proximal_l1 ; 2: proximal_l1_l2: x - x / max(|x(i)|_2 / sigma, 1) ; else not implemented
         IF PExp(f) = 3 THEN NoImpl
         ELSE IF PExp(f) = 1 THEN Strict([i \in 1..n |-> QSub(x[i], QDiv(x[i], QMax(QDiv(QAbs(x[i]), sg[i]), QOne)))])
         ELSE IF ~AllEq(sg) THEN NoVec
         ELSE LET r == Strict([i \in 1..NGrp(sp) |-> XSqrt(GSq(sp, x, i))]) IN
              IF \E i \in 1..NGrp(sp) : ~XKnown(r[i]) THEN Irr
              ELSE Strict([j \in 1..n |-> LET i == ((j - 1) % sp.n) + 1 IN
                             QSub(x[j], QDiv(x[j], QMax(QDiv(r[i], sg[1]), QOne)))])
    [] f.op = "IndGroupBall" -> \* exponent inf: proximal_convex_conj_l1 ; 2: proximal_convex_conj_l1_l2: x / max(1, |x(i)|_2)
         IF PExp(f) = 1 THEN NoImpl
         ELSE IF PExp(f) = 3 THEN Strict([i \in 1..n |-> QDiv(x[i], QMax(QOne, QAbs(x[i])))])
         ELSE
         LET r == Strict([i \in 1..NGrp(sp) |-> XSqrt(GSq(sp, x, i))]) IN
         IF \E i \in 1..NGrp(sp) : ~XKnown(r[i]) THEN Irr
         ELSE Strict([j \in 1..n |-> LET i == ((j - 1) % sp.n) + 1 IN QDiv(x[j], QMax(QOne, r[i]))])
    [] f.op = "Huber" ->    \* proximal_huber: factor gamma/(gamma+sigma) where |x| <= gamma+sigma, else 1 - sigma/|x|
         IF ~AllEq(sg) THEN NoVec
         ELSE LET big == Strict([i \in 1..NGrp(sp) |-> QLt(QSq(QAdd(f.s, sg[1])), GSq(sp, x, i))])
                  r   == Strict([i \in 1..NGrp(sp) |-> IF big[i] THEN XSqrt(GSq(sp, x, i)) ELSE QOne]) IN
              IF \E i \in 1..NGrp(sp) : ~XKnown(r[i]) THEN Irr
              ELSE Strict([j \in 1..n |-> LET i == IF IsVF(sp) THEN ((j - 1) % sp.n) + 1 ELSE j IN
                             IF big[i] THEN QMul(QSub(QOne, QDiv(sg[1], r[i])), x[j])
                             ELSE QMul(QDiv(f.s, QAdd(f.s, sg[1])), x[j])])
    [] f.op = "IndBox" ->  Strict([i \in 1..n |-> QMin(QMax(x[i], f.s), f.c)])
    [] f.op = "IndNonneg" -> Strict([i \in 1..n |-> QMax(x[i], QZero)])
    [] f.op = "IndZero" -> RConst(n, QZero)              \* ZeroOperator
    [] f.op = "Const"   -> x                             \* proximal_const_func
    [] f.op = "IndSum"  ->  \* ProximalSum: x + (sum_value - sum(x)) / x.size
         LET off == QDiv(QSub(f.s, RSumAll(x)), QI(n)) IN Strict([i \in 1..n |-> QAdd(x[i], off)])
    [] f.op = "IndSimplex" -> ProjSimplex(x, f.s)
    [] f.op = "KLcc" ->     \* proximal_convex_conj_kl: (x + 1 - sqrt((x - 1)^2 + 4 sigma g)) / 2
         IF ~AllEq(sg) THEN NoVec
         ELSE LET r == Strict([i \in 1..n |-> XSqrt(QAdd(QSq(QSub(x[i], QOne)), QMul(QMul(QI(4), sg[1]), f.v[i])))]) IN
              IF \E i \in 1..n : ~XKnown(r[i]) THEN Irr
              ELSE Strict([i \in 1..n |-> QHalf(QSub(QAdd(x[i], QOne), r[i]))])
    [] f.op = "KL" ->       \* proximal_convex_conj(proximal_convex_conj_kl(g=prior))
         IF ~AllEq(sg) THEN NoVec
         ELSE LET q == ProxImpl(sp, [f EXCEPT !.op = "KLcc"], RConst(n, QInv(sg[1])), RScal(QInv(sg[1]), x)) IN
              IF IsTok(q) THEN q ELSE RSub(x, RScal(sg[1], q))
    (* derived classes *)
    [] f.op = "LScale" ->   \* self.functional.proximal(sigma * self.scalar)
         IF f.s[1] < 0 THEN Raises ELSE ProxImpl(sp, Arg(f), RScal(f.s, sg), x)
    [] f.op = "ArgScale" -> \* proximal_arg_scaling: (1/s) prox_{sigma s^2}(s x)
         LET q == ProxImpl(sp, Arg(f), RScal(QSq(f.s), sg), RScal(f.s, x)) IN
         IF IsTok(q) THEN q ELSE RScal(QInv(f.s), q)
    [] f.op = "AddConst" -> ProxImpl(sp, Arg(f), sg, x)  \* self.left.proximal
    [] f.op = "Translate" -> \* proximal_translation: y + prox(x - y)
         LET q == ProxImpl(sp, Arg(f), sg, RSub(x, f.u)) IN
         IF IsTok(q) THEN q ELSE RAdd(f.u, q)
    [] f.op = "QuadPert" -> \* proximal_quadratic_perturbation: const = 1/sqrt(2 sigma a + 1) ;
                            \* const * [(1/const) prox_{sigma const^2}(const .)] (const x - sigma const u)
         IF f.s[1] < 0 THEN Raises
         ELSE LET c2 == Strict([i \in 1..n |-> QInv(QAdd(QMul(QMul(QI(2), f.s), sg[i]), QOne))])   \* const^2
                  u  == IF f.u = <<>> THEN RConst(n, QZero) ELSE f.u
                  arg == RMul(c2, RSub(x, RMul(sg, u)))        \* const * (const x - sigma const u)
              IN ProxImpl(sp, Arg(f), RMul(sg, c2), arg)       \* const * (1/const) = 1
    [] f.op = "Bregman" ->
         ProxImpl(sp, Mk("QuadPert", QZero, QZero, <<>>, RNeg(f.u), <<Arg(f)>>), sg, x)
    [] f.op = "Conj" ->     \* proximal_convex_conj(f.proximal): x - sigma prox_{f, 1/sigma}(x / sigma)
         LET q == ProxImpl(sp, Arg(f), RInv(sg), RDiv(x, sg)) IN
         IF IsTok(q) THEN q ELSE RSub(x, RMul(sg, q))
    [] f.op = "SepSum" ->   \* combine_proximals: DiagonalOperator of the component proximals
         LET q1 == ProxImpl(Part(sp, 1), Arg(f), PartVec(sp, sg, 1), PartVec(sp, x, 1))
             q2 == ProxImpl(Part(sp, 2), Arg2(f), PartVec(sp, sg, 2), PartVec(sp, x, 2))
         IN IF IsTok(q1) THEN q1 ELSE IF IsTok(q2) THEN q2 ELSE q1 \o q2
    [] OTHER -> NoImpl

(* ------------------------------- gradient ------------------------------- *)
RECURSIVE GradImpl(_, _, _)
GradImpl(sp, f, x) ==
  LET n == Len(x) IN
  CASE f.op = "L1" -> Strict([i \in 1..n |-> QSign(x[i])])                  \* x.ufuncs.sign()
    [] f.op = "L2" -> LET r == XSqrt(NormSq(sp, x)) IN
                      IF ~XKnown(r) THEN Irr ELSE IF r = QZero THEN x ELSE RScal(QInv(r), x)
    [] f.op = "L2sq" -> RScal(QI(2), x)                                       \* ScalingOperator(domain, 2.0)
    [] f.op = "Huber" ->   \* x / gamma ; where norm >= gamma: x / norm
         LET r == Strict([i \in 1..NGrp(sp) |-> IF QLt(GSq(sp, x, i), QSq(f.s)) THEN QZero ELSE XSqrt(GSq(sp, x, i))]) IN
         IF \E i \in 1..NGrp(sp) : ~XKnown(r[i]) THEN Irr
         ELSE Strict([j \in 1..n |-> LET i == IF IsVF(sp) THEN ((j - 1) % sp.n) + 1 ELSE j IN
                        IF r[i] = QZero THEN QDiv(x[j], f.s) ELSE QDiv(x[j], r[i])])
    [] f.op = "Quad" ->    \* operator None: ConstantOperator(vector) ; else (A + A*) x (+ vector)
         Strict([i \in 1..n |-> QAdd(IF f.v = <<>> THEN QZero ELSE QMul(QI(2), QMul(f.v[i], x[i])),
                                     IF f.u = <<>> THEN QZero ELSE f.u[i])])
    [] f.op = "Const" -> RConst(n, QZero)
    [] f.op = "KL"    -> IF \E i \in 1..n : x[i] = QZero THEN Irr
                         ELSE Strict([i \in 1..n |-> QSub(QOne, QDiv(f.v[i], x[i]))])      \* (-prior) / x + 1
    [] f.op = "KLcc"  -> IF \E i \in 1..n : x[i] = QOne THEN Irr
                         ELSE Strict([i \in 1..n |-> QDiv(f.v[i], QSub(QOne, x[i]))])      \* prior / (1 - x)
    [] f.op = "LScale" ->  LET g == GradImpl(sp, Arg(f), x) IN IF IsTok(g) THEN g ELSE RScal(f.s, g)
    [] f.op = "ArgScale" -> \* self.scalar * self.functional.gradient * self.scalar
         LET g == GradImpl(sp, Arg(f), RScal(f.s, x)) IN IF IsTok(g) THEN g ELSE RScal(f.s, g)
    [] f.op = "RVec" ->    \* self.vector * self.operator.gradient * self.vector
         LET g == GradImpl(sp, Arg(f), RMul(f.v, x)) IN IF IsTok(g) THEN g ELSE RMul(f.v, g)
    [] f.op = "Sum" ->
         LET g1 == GradImpl(sp, Arg(f), x)  g2 == GradImpl(sp, Arg2(f), x) IN
         IF IsTok(g1) THEN g1 ELSE IF IsTok(g2) THEN g2 ELSE RAdd(g1, g2)
    [] f.op = "AddConst" -> GradImpl(sp, Arg(f), x)       \* left.gradient + ZeroOperator
    [] f.op = "Translate" -> GradImpl(sp, Arg(f), RSub(x, f.u))
    [] f.op = "QuadPert" -> \* functional.gradient + (2 a) Id + ConstantOperator(linear_term)
         LET g == GradImpl(sp, Arg(f), x) IN
         IF IsTok(g) THEN g
         ELSE RAdd(RAdd(g, RScal(QMul(QI(2), f.s), x)), IF f.u = <<>> THEN RConst(n, QZero) ELSE f.u)
    [] f.op = "Bregman" -> LET g == GradImpl(sp, Arg(f), x) IN IF IsTok(g) THEN g ELSE RSub(g, f.u)
    [] f.op = "Comp" ->    \* op.derivative(x).adjoint(func.gradient(op(x))) ; MatrixOperator.adjoint = transpose
         LET g == GradImpl(sp, Arg(f), MatVec(f.v, x)) IN
         IF IsTok(g) THEN g
         ELSE Strict([j \in 1..n |-> QSumSeq([i \in 1..n |-> QMul(f.v[(i - 1) * n + j], g[i])])])
    [] f.op = "CompPow" -> \* chain rule with PowerOperator(k).derivative(x) = k * MultiplyOperator(x^(k-1)) (self-adjoint)
         LET g == GradImpl(sp, Arg(f), RPow(x, f.s[1])) IN
         IF IsTok(g) THEN g ELSE RMul(RScal(QI(f.s[1]), RPow(x, f.s[1] - 1)), g)
    [] f.op = "Prod" ->    \* right(x) * left.gradient(x) + left(x) * right.gradient(x)
         LET g1 == GradImpl(sp, Arg(f), x)  g2 == GradImpl(sp, Arg2(f), x)
             a == Val(sp, Arg(f), x)  b == Val(sp, Arg2(f), x) IN
         IF IsTok(g1) THEN g1 ELSE IF IsTok(g2) THEN g2 ELSE IF ~XKnown(a) \/ ~XKnown(b) THEN Irr
         ELSE RAdd(RScal(b, g1), RScal(a, g2))
    [] f.op = "Quot" ->    \* (1 / g) * f.gradient + (- f / g^2) * g.gradient
         LET g1 == GradImpl(sp, Arg(f), x)  g2 == GradImpl(sp, Arg2(f), x)
             a == Val(sp, Arg(f), x)  b == Val(sp, Arg2(f), x) IN
         IF IsTok(g1) THEN g1 ELSE IF IsTok(g2) THEN g2 ELSE IF ~XKnown(a) \/ ~XKnown(b) \/ b = QZero THEN Irr
         ELSE RAdd(RScal(QInv(b), g1), RScal(QNeg(QDiv(a, QSq(b))), g2))
    [] f.op = "SepSum" ->  \* DiagonalOperator(*gradients)
         LET g1 == GradImpl(Part(sp, 1), Arg(f), PartVec(sp, x, 1))
             g2 == GradImpl(Part(sp, 2), Arg2(f), PartVec(sp, x, 2))
         IN IF IsTok(g1) THEN g1 ELSE IF IsTok(g2) THEN g2 ELSE g1 \o g2
    [] OTHER -> NoImpl

(* ---------------------------- grad_lipschitz ---------------------------- *)
\* NaN = float('nan') (no claim) ; Inf = no finite bound claimed
RECURSIVE LipImpl(_, _)
NormOf(sp, u) == XSqrt(NormSq(sp, u))
LipImpl(sp, f) ==
  CASE f.op = "L2sq"  -> QI(2)
    [] f.op = "Const" -> QZero
    [] f.op = "Huber" -> QInv(f.s)                                           \* 1 / gamma
    [] f.op = "LScale"   -> XScal(QAbs(f.s), LipImpl(sp, Arg(f)))            \* np.abs(scalar) * func.grad_lipschitz
    [] f.op = "ArgScale" -> XScal(QSq(f.s), LipImpl(sp, Arg(f)))             \* np.abs(scalar) ** 2 * func.grad_lipschitz
    [] f.op = "Sum"      -> XAdd(LipImpl(sp, Arg(f)), LipImpl(sp, Arg2(f)))
    [] f.op = "AddConst" -> XAdd(LipImpl(sp, Arg(f)), QZero)                 \* FunctionalSum with ConstantFunctional
    [] f.op = "Translate" -> LipImpl(sp, Arg(f))
    [] f.op = "QuadPert" ->  \* func.grad_lipschitz + 2 |a| (+ linear_term.norm() when a linear term is given)
         LET L == XAdd(LipImpl(sp, Arg(f)), QMul(QI(2), QAbs(f.s))) IN
         IF f.u = <<>> THEN L ELSE XAdd(L, NormOf(sp, f.u))
    [] f.op = "Bregman"  -> XAdd(LipImpl(sp, Arg(f)), NormOf(sp, f.u))       \* + subgrad.norm()
    [] OTHER -> NaN

(* ======================= C against A: mismatch cells ==================== *)
\* every operator returns the set of clause names on which the transcription contradicts layer A
ProxMismatch(sp, f, sg, x) ==      \* f abstract program ; Impl(f) the ODL object
  LET p == ProxImpl(sp, Impl(sp, f), sg, x) IN
  IF p = Raises THEN {"prox-raises"}
  ELSE IF IsTok(p) THEN {}
  ELSE IF \E i \in 1..Len(p) : ~XKnown(p[i]) THEN {}
  ELSE IF Cert(sp, f, sg, x, p) THEN {} ELSE {"prox-not-optimal"}
ConjMismatch(sp, f, X, Y) ==
  LET c == ConjImpl(sp, Impl(sp, f)) IN
  IF c = ERaises THEN {"conj-raises"}
  ELSE IF ~Evaluable(c) THEN {}
  ELSE LET cy == TLCEval([y \in Y |-> Val(sp, c, y)])
           fx == TLCEval([x \in X |-> Val(sp, f, x)])
           cc == ConjImpl(sp, c)
       IN (IF \E x \in X, y \in Y : XKnown(fx[x]) /\ XKnown(cy[y]) /\ QLt(QAdd(fx[x], cy[y]), Inner(sp, x, y))
             THEN {"fenchel-young-inequality"} ELSE {}) \cup
          (IF \E x \in X, y \in Y : XKnown(fx[x]) /\ XKnown(cy[y]) /\ InSubdiff(sp, f, x, y) /\
                                    QAdd(fx[x], cy[y]) # Inner(sp, x, y)
             THEN {"fenchel-young-equality"} ELSE {}) \cup
          (IF Evaluable(cc) /\ \E x \in X : XKnown(fx[x]) /\ XKnown(Val(sp, cc, x)) /\ Val(sp, cc, x) # fx[x]
             THEN {"biconjugate"} ELSE {})
GradMismatch(sp, f, X) ==
  IF \E x \in X : LET ga == Grad(sp, f, x)  gc == GradImpl(sp, Impl(sp, f), x)
                  IN GradKnown(ga) /\ ~IsTok(gc) /\ ga # gc
    THEN {"gradient"} ELSE {}
LipMismatch(sp, f, X) ==
  LET L == LipImpl(sp, Impl(sp, f)) IN
  IF ~XKnown(L) THEN {}
  ELSE LET g == TLCEval([x \in X |-> Grad(sp, f, x)]) IN
       IF \E x, y \in X : GradKnown(g[x]) /\ GradKnown(g[y]) /\ ~LipschitzHolds(sp, L, x, y, g[x], g[y])
         THEN {"lipschitz-bound"} ELSE {}
=============================================================================

---------------------------- MODULE ViewSetImpl ----------------------------
(***************************************************************************)
(* Layer C (extension EXT/views), second decision structure:                *)
(*     odl/space/pspace.py : ProductSpaceElement.__setitem__(indices, values)*)
(* transcribed branch by branch on the heap of ViewSem.  Python values:      *)
(*   index   plain entry (int | slice | list) or a tuple of entries; the     *)
(*           tuple branch forwards indices[1:] - a tuple again, possibly     *)
(*           EMPTY - with an explicit part.__setitem__                       *)
(*   values  "scalar" (not iterable), "perpart" / "seq" (a list), "obj" (an  *)
(*           element: iterable, `values in self.space[0]` can hold)          *)
(* A tensor part ends the recursion with the NumPy assignment data[idx] = v  *)
(* (data[()] = v assigns everything).  Raise is the token for an exception.  *)
(*                                                                         *)
(* Refinement statement: for every action that ViewSem!Legal admits,        *)
(*     PImpl(st, x, idx, v) = Step(st, setitem).st.bufs                      *)
(* Since 728d232 the used-up (empty) forwarded index addresses the whole     *)
(* element (`indexed_parts = self.parts`, then the common assignment code). *)
(* EmptyIsWhole = TRUE mirrors the current code; FALSE is the structure      *)
(* before the repair (`if len(indices) == 0: return`, finding                *)
(* KF-EXT-views-2, fixed), kept as the non-vacuity run.                     *)
(***************************************************************************)
EXTENDS ViewSem

CONSTANT EmptyIsWhole

Raise == <<"raise">>

\* NumPy assignment into a tensor part: data[idx] = values  (idx: sequence of entries, <<>> = everything)
LeafAssign(st, bufs, li, idx, V) ==
  LET t == st.objs[li]
      S == Sel(t.shp, idx)
      m == Len(S.pos)
  IN  IF bufs = Raise THEN Raise
      ELSE IF ~(\A q \in 1..Len(idx) : q <= Len(t.shp) /\ AxisOk(t.shp[q], idx[q])) \/ Len(idx) > Len(t.shp) THEN Raise
      ELSE CASE V.k = "scalar" -> LeafWrite(bufs, t, S.pos, [k \in 1..m |-> V.c])
             [] V.k \in {"seq", "perpart"} ->
                  IF Len(V.vals) = m /\ Len(S.shp) = 1 THEN LeafWrite(bufs, t, S.pos, V.vals)
                  ELSE IF Len(V.vals) = 1 THEN LeafWrite(bufs, t, S.pos, [k \in 1..m |-> V.vals[1]])
                  ELSE Raise
             [] V.k = "obj" ->
                  IF st.objs[V.o].k = "leaf" /\ st.objs[V.o].shp = S.shp THEN LeafWrite(bufs, t, S.pos, Val(st, V.o))
                  ELSE Raise

\* `values in self.space[0]` for a power space
InComponent(st, i, V) == V.k = "obj" /\ IsPower(st, i) /\ SameSpace(st.objs, st.objs[i].parts[1], V.o)
IsIterable(V) == V.k # "scalar"
\* len(values) and values[q] of an iterable operand
VLen(st, V) == IF V.k = "obj" THEN (IF st.objs[V.o].k = "prod" THEN Len(st.objs[V.o].parts) ELSE st.objs[V.o].shp[1])
               ELSE Len(V.vals)
\* the q-th item of an iterable operand as an operand of its own (items of a tensor element are scalars)
VItem(st, V, q) ==
  IF V.k = "obj" THEN (IF st.objs[V.o].k = "prod" THEN VObj(st.objs[V.o].parts[q]) ELSE VScalar(Val(st, V.o)[q]))
  ELSE VScalar(V.vals[q])

\* tuple : is the index a Python tuple (forwarded indices[1:]) or a plain entry (then Len(idx) = 1)
RECURSIVE PImpl(_, _, _, _, _, _)
\* p[:] = v for a part p (tensor: NumPy; product: the slice branch)
PartAssignAll(st, bufs, p, V) ==
  IF st.objs[p].k = "leaf" THEN LeafAssign(st, bufs, p, <<IFull>>, V)
  ELSE PImpl(st, bufs, p, <<IFull>>, FALSE, V)

PImpl(st, bufs, i, idx, tuple, V) ==
  LET o == st.objs[i]
      n == Len(o.parts)
      \* the common tail: "Do the assignment, with broadcasting if desired"
      Assign(parts, W, wrapped) ==
        LET RECURSIVE All(_, _)
            All(bf, q) == IF q > Len(parts) THEN bf ELSE All(PartAssignAll(st, bf, parts[q], W), q + 1)
            RECURSIVE Zip(_, _)
            Zip(bf, q) == IF q > Len(parts) THEN bf ELSE Zip(PartAssignAll(st, bf, parts[q], VItem(st, W, q)), q + 1)
        IN  IF wrapped THEN All(bufs, 1)                                   \* integer index: values = (values,)
            ELSE IF ~IsIterable(W) THEN All(bufs, 1)
            ELSE IF InComponent(st, i, W) THEN All(bufs, 1)
            ELSE IF VLen(st, W) # Len(parts) THEN Raise
            ELSE Zip(bufs, 1)
  IN
  IF bufs = Raise THEN Raise
  ELSE IF ~tuple THEN
    LET e == idx[1] IN
      IF ~AxisOk(n, e) THEN Raise
      ELSE LET ps == AxisPos(n, e) IN Assign([q \in 1..Len(ps) |-> o.parts[ps[q] + 1]], V, e.k = "int")
  ELSE IF Len(idx) = 0 THEN
    IF EmptyIsWhole THEN Assign(o.parts, V, FALSE)                         \* indexed_parts = self.parts
    ELSE bufs                                                              \* before 728d232: return
  ELSE
    LET e == idx[1] IN
      IF e.k = "list" \/ ~AxisOk(n, e) THEN Raise                          \* self.parts[list] -> TypeError
      ELSE LET ps == AxisPos(n, e)
               RECURSIVE Each(_, _)
               Each(bf, q) ==
                 IF q > Len(ps) THEN bf
                 ELSE LET p == o.parts[ps[q] + 1] IN
                        Each(IF st.objs[p].k = "leaf" THEN LeafAssign(st, bf, p, Tail(idx), V)
                             ELSE PImpl(st, bf, p, Tail(idx), TRUE, V), q + 1)
           IN Each(bufs, 1)

\* entry point: x[idx] = v as Python spells it (one entry: plain; several: a tuple)
PSetItem(st, x, idx, V) == PImpl(st, st.bufs, x, idx, Len(idx) > 1, V)

\* the cells in which the empty forwarded index is reached on a product part
EmptyIndexCell(st, A) ==
  LET d == Descend(st.objs, A.x, A.idx) t == st.objs[d.o] IN
    /\ Len(A.idx) > 1 /\ t.k = "prod"
    /\ \E q \in 1..Len(AxisPos(Len(t.parts), d.idx[1])) : st.objs[t.parts[AxisPos(Len(t.parts), d.idx[1])[q] + 1]].k = "prod"

(* ------------------------------ instance ------------------------------- *)
CONSTANTS States, Indices, Values
VARIABLE cs
Cases == [s : States, x : 1..12, idx : Indices, v : Values]
CInit == cs \in {c \in Cases : c.x <= Len(c.s.objs) /\ c.s.objs[c.x].k = "prod"
                               /\ Legal(c.s, [NoAct EXCEPT !.op = "setitem", !.x = c.x, !.idx = c.idx, !.v = c.v])}
CNext == UNCHANGED cs
CSpec == CInit /\ [][CNext]_cs
ActOf(c) == [NoAct EXCEPT !.op = "setitem", !.x = c.x, !.idx = c.idx, !.v = c.v]
Refines == PSetItem(cs.s, cs.x, cs.idx, cs.v) = Step(cs.s, ActOf(cs)).st.bufs
=============================================================================

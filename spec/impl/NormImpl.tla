------------------------------- MODULE NormImpl -------------------------------
(***************************************************************************)
(* Layer C (extension EXT/normalize): the decision trees of                *)
(*   normalized_axes_tuple, normalized_index_expression,                   *)
(*   normalized_nodes_on_bdry, normalized_scalar_param_list, safe_int_conv *)
(*   (odl/util/normalize.py), real_dtype / complex_dtype / is_*_dtype,     *)
(*   unique, dedent (odl/util/utility.py), apply_on_boundary,              *)
(*   fast_1d_tensor_mult (odl/util/numerics.py)                            *)
(* transcribed branch by branch AS WRITTEN.  Every transcription returns   *)
(* [r |-> outcome, leaf |-> name of the path taken]; the exception class   *)
(* is the one the code raises.  [k |-> "unmodelled"] marks argument kinds  *)
(* the transcription does not follow (NumPy internals).                    *)
(*                                                                         *)
(* The transcription mirrors the CURRENT code including its open defects;  *)
(* each defect has a switch (the parameter fx, a set of tags) that replaces  *)
(* the defective branch by the proposed repair:                                *)
(*   "index-neg-oob"     negative out-of-bounds integers pass the check    *)
(*   "nob-badlen"        the wrong-length branch raises NameError          *)
(*   "spl-str-split"     strings are never split (docstring: 'abc', 3)     *)
(*   "aob-size1"         only_once applies both sides of an axis of size 1 *)
(* With all switches on C must refine A on the bounded instance; with the  *)
(* switches of the still open findings off TLC has to find the             *)
(* counter-examples (that run is expected to fail).                        *)
(***************************************************************************)
EXTENDS NormSem

AllSwitches == {"index-neg-oob", "nob-badlen", "spl-str-split", "aob-size1"}
R(o, lf) == [r |-> o, leaf |-> lf]
Unmodelled == R([k |-> "unmodelled", v |-> 0], "unmodelled")
IsErrV(x) == x.k = "err"

(* ------------------------- normalized_axes_tuple ------------------------ *)
\* int(x) as Python does it: value, or the exception class
PyInt(x) ==
  IF IsNum(x) THEN VI(Trunc(NumOf(x)))
  ELSE IF x.k = "str" THEN (IF IsDigitStr(x) THEN VI(StrInt(x.v)) ELSE Err("ValueError"))
  ELSE IF x.k = "arr0" THEN (IF IsNum(x.v) THEN VI(Trunc(NumOf(x.v))) ELSE Err("TypeError"))
  ELSE Err("TypeError")                                    \* None, list, generator
\* `x != y` between the converted int and the original
NeqOrig(i, x) == IF IsNum(x) THEN <<i, 1>> # NumOf(x) ELSE IF x.k = "arr0" /\ IsNum(x.v) THEN <<i, 1>> # NumOf(x.v) ELSE TRUE
AxesTail(ints, ndim, pre) ==
  IF HasDup(ints) THEN R(Err("ValueError"), pre \o "/duplicate")
  ELSE IF ndim <= 0 THEN R(Err("ValueError"), pre \o "/ndim-not-positive")
  ELSE LET nrm == [i \in 1..Len(ints) |-> IF ints[i] < 0 THEN ints[i] + ndim ELSE ints[i]]
       IN  IF \E i \in 1..Len(ints) : nrm[i] < 0 \/ nrm[i] >= ndim THEN R(Err("ValueError"), pre \o "/out-of-range")
           ELSE R(Ok(VT([i \in 1..Len(ints) |-> VI(nrm[i])])), pre \o "/ok")
RECURSIVE FirstErr(_)
FirstErr(s) == IF s = <<>> THEN VNone ELSE IF IsErrV(Head(s)) THEN Head(s) ELSE FirstErr(Tail(s))
C_Axes(axes, ndim) ==
  IF ndim.k # "int" THEN Unmodelled
  ELSE LET i0 == PyInt(axes) IN
       IF ~IsErrV(i0)                                       \* try: int(axes) ... else:
         THEN (IF NeqOrig(i0.v, axes) THEN R(Err("TypeError"), "scalar/not-integer")
               ELSE AxesTail(<<i0.v>>, ndim.v, "scalar"))
       ELSE IF i0.v = "ValueError" THEN R(Err("ValueError"), "scalar/int-raises")     \* int('a') is not a TypeError
       ELSE IF axes.k \in {"list", "gen"}                   \* except TypeError: tuple(int(axis) for axis in axes)
         THEN LET conv == [i \in 1..Len(axes.v) |-> PyInt(axes.v[i])]
                  bad  == FirstErr(conv)
              IN  IF IsErrV(bad) THEN R(bad, "seq/int-raises")
                  \* zip(axes, axes_in): a generator is exhausted by now, so nothing is compared
                  ELSE IF axes.k = "list" /\ \E i \in 1..Len(conv) : NeqOrig(conv[i].v, axes.v[i])
                    THEN R(Err("ValueError"), "seq/not-integer")
                  ELSE AxesTail([i \in 1..Len(conv) |-> conv[i].v], ndim.v, "seq")
       ELSE R(Err("TypeError"), "not-iterable")             \* None

(* ---------------------- normalized_index_expression --------------------- *)
IdxKindsC == {"int", "slice", "ell", "none"}
RECURSIVE FirstOOB(_, _, _, _, _)
\* the loop `for (i, idx), n in zip(enumerate(indices), shape)`: first axis whose integer fails the bound check
FirstOOB(items, shape, a, m, fx) ==
  IF a > m THEN 0
  ELSE IF items[a].k = "int" /\
          LET adj == IF items[a].v < 0 THEN items[a].v + shape[a] ELSE items[a].v
          IN  adj >= shape[a] \/ ("index-neg-oob" \in fx /\ adj < 0)
    THEN a
  ELSE FirstOOB(items, shape, a + 1, m, fx)
C_Index(ind, shape, i2s, fx) ==
  LET nd == Len(shape) IN
  IF ind.k = "none" THEN R(Err("TypeError"), "none/not-iterable")       \* np.isscalar(None) is False; list(None)
  ELSE IF ind.k \notin {"int", "slice", "ell", "list"} \/
          (ind.k = "list" /\ \E i \in 1..Len(ind.v) : ind.v[i].k \notin IdxKindsC) THEN Unmodelled
  ELSE LET pre == IF ind.k = "int" THEN "scalar" ELSE IF ind.k = "list" THEN "seq" ELSE "single"
           l0  == IF ind.k = "int" THEN <<ind, VEll>> ELSE IF ind.k = "list" THEN ind.v ELSE <<ind>>
           l1  == IF Len(l0) < nd /\ CountEll(l0) = 0 THEN Append(l0, VEll) ELSE l0
       IN  IF CountEll(l1) > 1 THEN R(Err("ValueError"), pre \o "/two-ellipsis")
           ELSE LET l2 == IF CountEll(l1) = 0 THEN l1
                          ELSE LET e == CHOOSE t \in 1..Len(l1) : l1[t].k = "ell"
                               IN  SubSeq(l1, 1, e - 1) \o Rep(SlAll, Max2(nd - Len(l1) + 1, 0)) \o SubSeq(l1, e + 1, Len(l1))
                    m  == Min2(Len(l2), nd)
                    oob == FirstOOB(l2, shape, 1, m, fx)
                IN  IF oob # 0 THEN R(Err("IndexError"), pre \o "/out-of-bounds")
                    ELSE LET l3 == [a \in 1..Len(l2) |->
                                      IF a <= m /\ l2[a].k = "int" /\ i2s = 1
                                        THEN LET adj == IF l2[a].v < 0 THEN l2[a].v + shape[a] ELSE l2[a].v
                                             IN  VSl(adj, adj + 1, NONE)
                                        ELSE l2[a]]
                         IN  IF \E a \in 1..m : l3[a].k = "slice" /\
                                   ((l3[a].v[1] = l3[a].v[2] /\ l3[a].v[1] # NONE) \/ l3[a].v[1] = shape[a])
                               THEN R(Err("ValueError"), pre \o "/empty-slice")
                             ELSE IF \E a \in 1..Len(l3) : l3[a].k = "none" THEN R(Err("ValueError"), pre \o "/new-axis")
                             ELSE IF Len(l3) > nd THEN R(Err("IndexError"), pre \o "/too-many")
                             ELSE R(Ok(VT(l3)), pre \o (IF CountEll(l1) = 1 THEN "/ok-ellipsis" ELSE "/ok"))

(* ------------------------ normalized_nodes_on_bdry ----------------------- *)
ScalarKinds == {"bool", "npbool", "int", "none", "float", "str"}
Truthy(x) == IF x.k = "none" THEN 0 ELSE IF IsNum(x) THEN (IF NumOf(x)[1] = 0 THEN 0 ELSE 1)
             ELSE IF Len(x.v) = 0 THEN 0 ELSE 1
\* np.shape(item) == () / (2,) / anything else
NobItemC(x) ==
  IF x.k \in ScalarKinds THEN VT(<<VB(Truthy(x)), VB(Truthy(x))>>)
  ELSE IF x.k = "list" /\ Len(x.v) = 2 /\ (\A i \in 1..2 : x.v[i].k \in ScalarKinds)
    THEN VT(<<VB(Truthy(x.v[1])), VB(Truthy(x.v[2]))>>)
  ELSE Err("ValueError")
C_Nob(nob, length, fx) ==
  IF length.k # "int" THEN Unmodelled
  ELSE IF nob.k = "bool" THEN R(Ok(VL(Rep(VT(<<nob, nob>>), Max2(length.v, 0)))), "global")
  ELSE IF nob.k \in {"npbool", "int", "none", "float"} THEN R(Err("TypeError"), "no-len")
  ELSE IF nob.k # "list" THEN Unmodelled
  ELSE LET n == Len(nob.v) IN
       IF length.v = 1 /\ n = 2 /\ (\A i \in 1..2 : nob.v[i].k = "bool")               \* isinstance(d, bool)
         THEN R(Ok(VL(<<VT(<<nob.v[1], nob.v[2]>>)>>)), "flat-1d")
       ELSE IF n = length.v
         THEN LET its == [i \in 1..n |-> NobItemC(nob.v[i])]
                  bad == FirstErr(its)
              IN  IF IsErrV(bad) THEN R(bad, "per-axis/item-shape") ELSE R(Ok(VL(its)), "per-axis/ok")
       ELSE R(Err(IF "nob-badlen" \in fx THEN "ValueError" ELSE "NameError"), "bad-length")

(* ---------------------- normalized_scalar_param_list --------------------- *)
C_Sic(x0) ==
  LET x == Unbox(x0) IN
  IF x.k = "int" \/ IsBoolish(x) THEN R(Ok(VI(x.v)), "safe")
  ELSE IF x.k \in {"float", "none", "str"} THEN R(Err("ValueError"), "unsafe")
  ELSE IF x.k = "list" THEN (IF Len(x.v) = 1 /\ (x.v[1].k = "int" \/ IsBoolish(x.v[1]))
                               THEN R(Ok(VI(x.v[1].v)), "safe")          \* int() of a size-1 array
                               ELSE R(Err("ValueError"), "unsafe"))
  ELSE Unmodelled
ConvC(c, x) ==
  CASE c = "none"  -> x
    [] c = "int"   -> PyInt(x)
    [] c = "float" -> IF IsNum(x) THEN [k |-> "float", v |-> NumOf(x)]
                      ELSE IF x.k = "str" THEN (IF IsDigitStr(x) THEN VF(StrInt(x.v), 1) ELSE Err("ValueError"))
                      ELSE Err("TypeError")
    [] c = "myconv" -> IF x.k = "none" THEN VB(0) ELSE IF x.k = "gen" THEN VB(1) ELSE VB(Truthy(x))
    [] c = "safeint" -> LET s == C_Sic(x).r IN IF s.k = "ok" THEN s.v ELSE s
\* np.array(param, dtype=object, copy=True, ndmin=1): <<entries>> of a 1-d result, or the token "2d"
IsListOfLists(p) == p.k = "list" /\ Len(p.v) >= 1 /\ (\A i \in 1..Len(p.v) : p.v[i].k = "list")
                    /\ (\A i \in 1..Len(p.v) : Len(p.v[i].v) = Len(p.v[1].v))
C_Spl(param, length, conv, keep, ret, fx) ==
  IF length.k # "int" THEN Unmodelled
  ELSE IF length.v < 0 THEN R(Err("ValueError"), "negative-length")
  ELSE LET n == length.v
           split == "spl-str-split" \in fx /\ param.k = "str" /\ Len(param.v) = n /\ n # 1
           ents == IF split THEN SeqItems(param)
                   ELSE IF param.k = "list" THEN param.v
                   ELSE <<Unbox(param)>>
       IN  IF IsListOfLists(param) THEN R(Err("ValueError"), "too-many-dims")
           ELSE IF Len(ents) # n /\ Len(ents) # 1 THEN R(Err("ValueError"), "broadcast-fails")
           ELSE LET raw == IF Len(ents) = n THEN [i \in 1..n |-> Unbox(ents[i])] ELSE Rep(Unbox(ents[1]), n)
                    cv  == [i \in 1..n |-> IF conv = "none" \/ (raw[i].k = "none" /\ keep = 1) THEN raw[i]
                                           ELSE ConvC(conv, raw[i])]
                    bad == FirstErr(cv)
                    lf  == (IF split THEN "split" ELSE IF Len(ents) = n /\ param.k = "list" THEN "sequence" ELSE "broadcast")
                           \o (IF conv = "none" THEN "" ELSE "/conv")
                IN  IF \E i \in 1..n : cv[i].k = "unmodelled" THEN Unmodelled
                    ELSE IF IsErrV(bad) THEN R(bad, lf \o "/conv-raises")
                    ELSE IF ret = 1 THEN R(Ok(VT(<<VL(cv), VL(raw)>>)), lf \o "/nonconv")
                    ELSE R(Ok(VL(cv)), lf)

(* ------------------------------- data types ----------------------------- *)
\* np.issubsctype(dtype.base, ...) as NumPy classifies the scalar types (timedelta64 is a signed integer there)
NumericC(b) == b \in IntBases \cup FloatBases \cup ComplexBases \cup {"timedelta64"}
IntC(b) == b \in IntBases \cup {"timedelta64"}
C_Dtype(fn, b, shp, dflt) ==
  CASE fn = "is_numeric_dtype" -> R(Ok(VBool(NumericC(b))), "issubsctype")
    [] fn = "is_int_dtype" -> R(Ok(VBool(IntC(b))), "issubsctype")
    [] fn = "is_floating_dtype" -> R(Ok(VBool(b \in FloatBases \cup ComplexBases)), IF b \in FloatBases THEN "real" ELSE "complex")
    [] fn = "is_real_dtype" -> R(Ok(VBool(NumericC(b) /\ b \notin ComplexBases)), IF NumericC(b) THEN "numeric" ELSE "not-numeric")
    [] fn = "is_real_floating_dtype" -> R(Ok(VBool(b \in FloatBases)), "issubsctype")
    [] fn = "is_complex_floating_dtype" -> R(Ok(VBool(b \in ComplexBases)), "issubsctype")
    [] fn = "real_dtype" ->
         IF b \in FloatBases THEN R(Ok(VDt(b, shp)), "already-real")
         ELSE IF b \in ComplexBases THEN R(Ok(VDt(RealOf(b), shp)), "map")
         ELSE IF dflt.k # "none" THEN R(Ok(dflt), "default") ELSE R(Err("ValueError"), "no-counterpart")
    [] fn = "complex_dtype" ->
         IF b \in ComplexBases THEN R(Ok(VDt(b, shp)), "already-complex")
         ELSE IF b \in FloatBases THEN R(Ok(VDt(IF b = "float16" THEN "complex64" ELSE ComplexOf(b), shp)), "map")
         ELSE IF dflt.k # "none" THEN R(Ok(dflt), "default") ELSE R(Err("ValueError"), "no-counterpart")
    [] fn \in {"dtype_str", "dtype_repr"} ->
         LET q == IF fn = "dtype_repr" THEN "'" ELSE "" IN
         IF shp # <<>> \/ b \in OtherBases \cup (VagueBases \ {"bool"}) THEN Unmodelled
         ELSE IF b = "int64" THEN R(Ok(VTx(q \o "int" \o q)), "int")
         ELSE IF b = "float64" THEN R(Ok(VTx(q \o "float" \o q)), "float")
         ELSE IF b = "complex128" THEN R(Ok(VTx(q \o "complex" \o q)), "complex")
         ELSE R(Ok(VTx(q \o b \o q)), "other")

(* --------------------------------- unique ------------------------------- *)
RECURSIVE Hashable(_)
Hashable(x) == IF x.k = "list" THEN FALSE
               ELSE IF x.k = "tuple" THEN \A i \in 1..Len(x.v) : Hashable(x.v[i]) ELSE TRUE
C_Unique(sq) ==
  IF sq.k \notin {"list", "str"} THEN Unmodelled
  ELSE LET its == SeqItems(sq) IN
       IF \A i \in 1..Len(its) : Hashable(its[i])
         THEN R(Ok(VL(UniqueRef(its, <<>>))), "hashable")        \* OrderedDict.fromkeys: hash + ==
         ELSE R(Ok(VL(UniqueRef(its, <<>>))), "unhashable")      \* O(n^2) loop with `in`

(* --------------------------------- dedent ------------------------------- *)
\* num_indents: `for i in range(max_num): if startswith: strip else: break; return i` - the loop variable, not a counter
NumIndentsC(line, ind) ==
  LET maxnum == (Len(line) + Len(ind) - 1) \div Len(ind)
      cnt    == Levels(line, ind)
  IN  IF maxnum = 0 THEN 0 ELSE IF cnt >= maxnum THEN maxnum - 1 ELSE cnt
\* str.splitlines(): a text that ends with a newline (last line empty) loses that last line
SplitLines(lines) == IF Len(lines) >= 1 /\ lines[Len(lines)] = <<>> THEN SubSeq(lines, 1, Len(lines) - 1) ELSE lines
\* the empty string is "no line at all" for the harness: a result of one empty line is reported as no line
TextRes(ls) == VL(IF ls = <<<<>>>> THEN <<>> ELSE [i \in 1..Len(ls) |-> VS(ls[i])])
C_Indent(lines0, ind) ==
  LET lines == SplitLines(lines0) IN R(Ok(TextRes([i \in 1..Len(lines) |-> ind \o lines[i]])), "join")
C_Dedent(lines0, ind, maxlv) ==
  LET lines == SplitLines(lines0) IN
  IF Len(ind) = 0 THEN R(Ok(TextRes(lines0)), "empty-indent")
  ELSE IF Len(lines) = 0 THEN R(Err("ValueError"), "no-lines")                \* min() of an empty sequence
  ELSE LET lv0 == MinOf([i \in 1..Len(lines) |-> NumIndentsC(lines[i], ind)])
           lv  == IF maxlv = NONE THEN lv0 ELSE Min2(lv0, maxlv)
       IN  R(Ok(TextRes([i \in 1..Len(lines) |-> SubSeq(lines[i], lv * Len(ind) + 1, Len(lines[i]))])),
             IF maxlv # NONE /\ maxlv < lv0 THEN "capped" ELSE "common")

(* ----------------------------- apply_on_boundary ------------------------ *)
\* the region selected by a tuple of per-axis entries: entry <<a, b>> = slice(a, b), or an integer position
InSlice(c, sl, n) == \E t \in 1..Len(SliceIdx(<<sl[1], sl[2], NONE>>, n)) : SliceIdx(<<sl[1], sl[2], NONE>>, n)[t] = c
RegionC(shape, slices, ax, pos, nvals) ==
  {p \in 0..(nvals - 1) : \A a \in 1..Len(shape) :
      IF a = ax THEN Coord(p, shape, a) = pos ELSE InSlice(Coord(p, shape, a), slices[a], shape[a])}
ApplyOn(vals, pts, f) == [t \in 1..Len(vals) |-> IF (t - 1) \in pts THEN ApplyTok(f, vals[t]) ELSE vals[t]]
RECURSIVE AobLoopC(_, _, _, _, _, _, _, _, _)
AobLoopC(vals, slices, shape, funcs, which, order, once, t, fx) ==
  IF t > Len(order) THEN vals
  ELSE LET ax  == order[t]
           sel == t                                                      \* zip(axis_order, func, which_boundaries)
           fl  == funcs[sel][1]   fr == funcs[sel][2]
           wl  == which[sel][1]   wr == which[sel][2]
           base == IF once = 1 THEN slices ELSE [a \in 1..Len(shape) |-> <<NONE, NONE>>]
           doL == wl = 1 /\ fl # "none"
           v1  == IF doL THEN ApplyOn(vals, RegionC(shape, base, ax, 0, Len(vals)), fl) ELSE vals
           doR == wr = 1 /\ fr # "none" /\ ~("aob-size1" \in fx /\ once = 1 /\ doL /\ shape[ax] = 1)
           v2  == IF doR THEN ApplyOn(v1, RegionC(shape, base, ax, shape[ax] - 1, Len(vals)), fr) ELSE v1
           sl2 == [slices EXCEPT ![ax] = <<IF doL THEN 1 ELSE NONE, IF doR THEN -1 ELSE NONE>>]
       IN  AobLoopC(v2, sl2, shape, funcs, which, order, once, t + 1, fx)
C_Aob(shape, vals, funcs, which, order, once, fx) ==
  LET nd == Len(shape) IN
  IF Len(funcs) # nd THEN R(Err("ValueError"), "func-length")
  ELSE IF Len(which) # nd THEN R(Err("ValueError"), "which-length")
  ELSE IF Len(order) # nd THEN R(Err("ValueError"), "order-length")
  ELSE IF ~IsPerm(order, nd) THEN Unmodelled
  ELSE LET res == AobLoopC(vals, [a \in 1..nd |-> <<NONE, NONE>>], shape, funcs, which, order, once, 1, fx)
       IN  R(Ok(VL([t \in 1..Len(vals) |-> VI(res[t])])), IF once = 1 THEN "once" ELSE "repeated")

(* ---------------------------- fast_1d_tensor_mult ----------------------- *)
C_F1d(shape, vals, vecs, axes0) ==
  LET nd == Len(shape)
      given == axes0 # <<NONE>>
  IN  IF Len(vecs) = 0 THEN R(Err("ValueError"), "no-arrays")
      ELSE IF given /\ Len(axes0) # Len(vecs) THEN R(Err("ValueError"), "axes-length")
      ELSE LET ax0 == IF given THEN [t \in 1..Len(axes0) |-> IF axes0[t] < 0 THEN axes0[t] + nd ELSE axes0[t]]
                      ELSE [t \in 1..Len(vecs) |-> nd - Len(vecs) + t - 1]
           IN  IF \E t \in 1..Len(ax0) : ax0[t] < 0 \/ ax0[t] >= nd THEN R(Err("ValueError"), "axes-out-of-bounds")
               ELSE IF HasDup(ax0) \/ (\E t \in 1..Len(vecs) : Len(vecs[t]) # shape[ax0[t] + 1]) THEN Unmodelled
               ELSE R(Ok(VL([t \in 1..Len(vals) |->
                               VI(vals[t] * ProdOver(t - 1, shape, vecs, [u \in 1..Len(ax0) |-> ax0[u] + 1], 1))])),
                      IF Len(ax0) < nd THEN "big-factor" ELSE "hybrid")

(* -------------------------------- dispatcher ---------------------------- *)
Impl(fn, a, fx) ==
  CASE fn = "axes"  -> C_Axes(a.axes, a.ndim)
    [] fn = "index" -> C_Index(a.ind, a.shape, a.i2s, fx)
    [] fn = "nob"   -> C_Nob(a.nob, a.length, fx)
    [] fn = "spl"   -> C_Spl(a.param, a.length, a.conv, a.keep, a.ret, fx)
    [] fn = "sic"   -> C_Sic(a.x)
    [] fn = "dtype" -> C_Dtype(a.f, a.base, a.shape, a.dflt)
    [] fn = "unique" -> C_Unique(a.seq)
    [] fn = "indent" -> C_Indent(a.lines, a.ind)
    [] fn = "dedent" -> C_Dedent(a.lines, a.ind, a.maxlv)
    [] fn = "aob"   -> C_Aob(a.shape, a.vals, a.funcs, a.which, a.order, a.once, fx)
    [] fn = "f1d"   -> C_F1d(a.shape, a.vals, a.vecs, a.axes)
    [] OTHER        -> Unmodelled
\* C refines A: whatever the code's decision tree does is an outcome the documentation allows
Refines(fn, a, fx) == LET c == Impl(fn, a, fx).r IN c.k = "unmodelled" \/ MatchesCase(fn, a, c)
=============================================================================

------------------------------ MODULE ResizeImpl ------------------------------
(***************************************************************************)
(* Layer C (property C16): implementation-shaped model of                   *)
(*   odl/util/numerics.py : resize_array, _intersection_slice_tuples,       *)
(*   _assign_intersection, _padding_slices_outer, _padding_slices_inner,    *)
(*   _apply_padding                                                         *)
(* at the grain of its NumPy slice statements: Python slice objects         *)
(* (start, stop, step with None and negative values, resolved against the   *)
(* length of the indexed axis exactly as CPython does), basic-slice reads,  *)
(* assignments and in-place additions with broadcasting, np.sum(keepdims),  *)
(* np.diff, and the per-axis loop with its `working_slc` bookkeeping for    *)
(* the corner blocks.  Arrays are [sh |-> shape, v |-> flat C-order ints].  *)
(* Also odl/discr/discr_ops.py : _resize_discr (range limits from offset    *)
(* or default distribution) and _offset_from_spaces.                        *)
(* TLC checks Impl = reference (ResizeSem) on the probe arrays 0, e_1..e_N  *)
(* for every configuration, i.e. equality of the full matrices and affine   *)
(* parts, and Impl = Err exactly outside the documented restrictions.       *)
(***************************************************************************)
EXTENDS ResizeSem, TLC

NONE == 1000000                     \* Python's None inside a slice
FULL == <<NONE, NONE, 1>>           \* slice(None)
Err  == [sh |-> <<>>, v |-> <<-1>>] \* an exception was raised

\* CPython PySlice_AdjustIndices + slice length: the index list selected by slice(start, stop, step) on length len
PyIndices(start, stop, step, len) ==
  LET s0 == IF step > 0
              THEN (IF start = NONE THEN 0 ELSE IF start < 0 THEN Max2(start + len, 0) ELSE Min2(start, len))
              ELSE (IF start = NONE THEN len - 1 ELSE IF start < 0 THEN Max2(start + len, -1) ELSE Min2(start, len - 1))
      e0 == IF step > 0
              THEN (IF stop = NONE THEN len ELSE IF stop < 0 THEN Max2(stop + len, 0) ELSE Min2(stop, len))
              ELSE (IF stop = NONE THEN -1 ELSE IF stop < 0 THEN Max2(stop + len, -1) ELSE Min2(stop, len - 1))
      cnt == IF step > 0 THEN (IF e0 > s0 THEN (e0 - s0 + step - 1) \div step ELSE 0)
                         ELSE (IF e0 < s0 THEN (s0 - e0 + (-step) - 1) \div (-step) ELSE 0)
  IN  [j \in 1..cnt |-> s0 + (j - 1) * step]

Resolve(slc, sh) == [a \in 1..Len(sh) |-> PyIndices(slc[a][1], slc[a][2], slc[a][3], sh[a])]

Strd(sh, a) == ProdFromR(sh, a + 1)
CoordR(sh, k, a) == ((k - 1) \div Strd(sh, a)) % sh[a]
RECURSIVE FlatFrom(_, _, _)
FlatFrom(sh, co, a) == IF a > Len(sh) THEN 0 ELSE co[a] * Strd(sh, a) + FlatFrom(sh, co, a + 1)
Flat(sh, co) == 1 + FlatFrom(sh, co, 1)
Coords(sh, k) == [a \in 1..Len(sh) |-> CoordR(sh, k, a)]
PosIn(list, x) == CHOOSE p \in 1..Len(list) : list[p] = x
InList(list, x) == \E p \in 1..Len(list) : list[p] = x

Filled(sh, x) == [sh |-> sh, v |-> [k \in 1..SizeR(sh) |-> x]]
\* value of S at target coordinates co, with NumPy broadcasting of length-1 axes
AtB(S, co) == S.v[Flat(S.sh, [a \in 1..Len(S.sh) |-> IF S.sh[a] = 1 THEN 0 ELSE co[a]])]
BcOK(S, sh) == \A a \in 1..Len(sh) : S.sh[a] = 1 \/ S.sh[a] = sh[a]

\* A[idx]  (basic slicing, idx = resolved index lists per axis)
Take(A, idx) ==
  LET sh == [a \in 1..Len(A.sh) |-> Len(idx[a])]
  IN  [sh |-> sh,
       v |-> Eager([k \in 1..SizeR(sh) |-> A.v[Flat(A.sh, [a \in 1..Len(sh) |-> idx[a][CoordR(sh, k, a) + 1]])]])]
\* A[idx] = S   resp.   A[idx] += S   (S broadcast to the selected block)
Store(A, idx, S, add) ==
  IF A = Err \/ S = Err THEN Err
  ELSE LET bsh == [a \in 1..Len(A.sh) |-> Len(idx[a])] IN
  IF ~BcOK(S, bsh) THEN Err
  ELSE [sh |-> A.sh,
        v |-> Eager([k \in 1..SizeR(A.sh) |->
                LET co == Coords(A.sh, k) IN
                IF \A a \in 1..Len(A.sh) : InList(idx[a], co[a])
                  THEN LET x == AtB(S, [a \in 1..Len(A.sh) |-> PosIn(idx[a], co[a]) - 1])
                       IN  IF add THEN A.v[k] + x ELSE x
                  ELSE A.v[k]])]

\* np.sum(S, axis=a, keepdims=True)
SumAxis(S, a) ==
  LET sh == [S.sh EXCEPT ![a] = 1]
      RECURSIVE Acc(_, _)
      Acc(co, t) == IF t >= S.sh[a] THEN 0 ELSE S.v[Flat(S.sh, [co EXCEPT ![a] = t])] + Acc(co, t + 1)
  IN  [sh |-> sh, v |-> Eager([k \in 1..SizeR(sh) |-> Acc(Coords(sh, k), 0)])]
\* np.diff(S, n=1, axis=a)
DiffAxis(S, a) ==
  LET sh == [S.sh EXCEPT ![a] = S.sh[a] - 1]
  IN  [sh |-> sh, v |-> Eager([k \in 1..SizeR(sh) |->
         LET co == Coords(sh, k) IN S.v[Flat(S.sh, [co EXCEPT ![a] = co[a] + 1])] - S.v[Flat(S.sh, co)]])]
\* vec[bcast_slc] * S : a 1-d vector laid along axis a times S (S has length 1 or Len(vec) along a)
MulVec(vec, a, S) ==
  LET sh == [S.sh EXCEPT ![a] = Len(vec)]
  IN  [sh |-> sh, v |-> Eager([k \in 1..SizeR(sh) |->
         LET co == Coords(sh, k) IN vec[co[a] + 1] * AtB(S, co)])]
\* S1 + S2 with broadcasting along axis a
AddB(S1, S2, a) ==
  LET sh == [S1.sh EXCEPT ![a] = IF S1.sh[a] = 0 \/ S2.sh[a] = 0 THEN 0 ELSE Max2(S1.sh[a], S2.sh[a])]
  IN  [sh |-> sh, v |-> Eager([k \in 1..SizeR(sh) |-> LET co == Coords(sh, k) IN AtB(S1, co) + AtB(S2, co)])]

(* ---------------- _intersection_slice_tuples / _assign_intersection ------- *)
InterLhs(lsh, rsh, offs) ==
  [a \in 1..Len(lsh) |-> IF lsh[a] > rsh[a] THEN <<offs[a], offs[a] + Min2(lsh[a], rsh[a]), 1>> ELSE FULL]
InterRhs(lsh, rsh, offs) ==
  [a \in 1..Len(lsh) |-> IF lsh[a] < rsh[a] THEN <<offs[a], offs[a] + Min2(lsh[a], rsh[a]), 1>> ELSE FULL]
AssignIntersection(L, R, offs) ==
  IF L = Err \/ R = Err THEN Err
  ELSE Store(L, Resolve(InterLhs(L.sh, R.sh, offs), L.sh), Take(R, Resolve(InterRhs(L.sh, R.sh, offs), R.sh)), FALSE)

(* ---------------- _padding_slices_outer / _padding_slices_inner ----------- *)
OuterL(lsh, rsh, a, offs) == <<NONE, offs[a], 1>>                                     \* slice(istart_inner)
OuterR(lsh, rsh, a, offs) == <<offs[a] + Min2(lsh[a], rsh[a]), NONE, 1>>              \* slice(istop_inner, None)
InnerL(lsh, rsh, a, offs, mode) ==
  LET istart == offs[a]
      istop  == istart + Min2(lsh[a], rsh[a])
      npl    == istart
  IN  CASE mode = "periodic"  -> <<istop - npl, istop, 1>>
        [] mode = "symmetric" -> <<istart + npl, istart, -1>>
        [] OTHER              -> <<istart, istart + 1, 1>>          \* order0 / order1: the first entry
InnerR(lsh, rsh, a, offs, mode) ==
  LET istart == offs[a]
      istop  == istart + Min2(lsh[a], rsh[a])
      npr    == Max2(lsh[a], rsh[a]) - istop
      stopr  == istop - 2 - npr
  IN  CASE mode = "periodic"  -> <<istart, istart + npr, 1>>
        [] mode = "symmetric" -> <<istop - 2, IF stopr = -1 THEN NONE ELSE stopr, -1>>
        [] OTHER              -> <<istop - 1, istop, 1>>            \* order0 / order1: the last entry

(* ---------------- _apply_padding : one axis ------------------------------- *)
Range1(lo, hi) == [j \in 1..(IF hi >= lo THEN hi - lo + 1 ELSE 0) |-> lo + j - 1]      \* np.arange(lo, hi + 1)

PadAxis(L, rsh, offs, mode, dir, a, work) ==
  LET lsh  == L.sh
      npl  == offs[a]
      npr  == lsh[a] - rsh[a] - npl
      outL == OuterL(lsh, rsh, a, offs)
      outR == OuterR(lsh, rsh, a, offs)
      inL  == InnerL(lsh, rsh, a, offs, mode)
      inR  == InnerR(lsh, rsh, a, offs, mode)
      W(s) == Resolve([work EXCEPT ![a] = s], lsh)       \* working_slc with axis a replaced
      bad  == \/ (mode = "order0" /\ rsh[a] = 0)
              \/ (mode = "order1" /\ rsh[a] < 2)
              \/ (mode = "periodic" /\ (npl > rsh[a] \/ npr > rsh[a]))
              \/ (mode = "symmetric" /\ (npl >= rsh[a] \/ npr >= rsh[a]))
  IN
  IF bad THEN Err
  ELSE IF mode \in {"periodic", "symmetric"} THEN
    IF dir = "forward"
      THEN LET L1 == Store(L, W(outL), Take(L, W(inL)), FALSE)
           IN  IF L1 = Err THEN Err ELSE Store(L1, W(outR), Take(L1, W(inR)), FALSE)
      ELSE LET L1 == Store(L, W(inL), Take(L, W(outL)), TRUE)
           IN  IF L1 = Err THEN Err ELSE Store(L1, W(inR), Take(L1, W(outR)), TRUE)
  ELSE IF mode = "order0" THEN
    IF dir = "forward"
      THEN LET L1 == Store(L, W(outL), Take(L, W(inL)), FALSE)
           IN  IF L1 = Err THEN Err ELSE Store(L1, W(outR), Take(L1, W(inR)), FALSE)
      ELSE LET L1 == Store(L, W(inL), SumAxis(Take(L, W(outL)), a), TRUE)
           IN  IF L1 = Err THEN Err ELSE Store(L1, W(inR), SumAxis(Take(L1, W(outR)), a), TRUE)
  ELSE \* order1
    LET slopeL == <<inL[1], inL[2] + 1, 1>>
        slopeR == <<inR[1] - 1, inR[2], 1>>
        arL    == Range1(-npl, -1)
        arR    == Range1(1, npr)
    IN
    IF dir = "forward"
      THEN LET sl == DiffAxis(Take(L, W(slopeL)), a)
               sr == DiffAxis(Take(L, W(slopeR)), a)
               L1 == Store(L, W(outL), AddB(Take(L, W(inL)), MulVec(arL, a, sl), a), FALSE)
           IN  IF L1 = Err THEN Err
               ELSE Store(L1, W(outR), AddB(Take(L1, W(inR)), MulVec(arR, a, sr), a), FALSE)
      ELSE LET L1 == Store(L, W(inL), SumAxis(Take(L, W(outL)), a), TRUE)
               L2 == IF L1 = Err THEN Err ELSE Store(L1, W(inR), SumAxis(Take(L1, W(outR)), a), TRUE)
           IN  IF L2 = Err THEN Err
               ELSE LET m1l == SumAxis(MulVec(arL, a, Take(L2, W(outL))), a)
                        m1r == SumAxis(MulVec(arR, a, Take(L2, W(outR))), a)
                        L3  == Store(L2, W(slopeL), MulVec(<<-1, 1>>, a, m1l), TRUE)
                    IN  IF L3 = Err THEN Err ELSE Store(L3, W(slopeR), MulVec(<<-1, 1>>, a, m1r), TRUE)

\* the loop over the axes with the working_slc bookkeeping
RECURSIVE PadLoop(_, _, _, _, _, _, _)
PadLoop(L, rsh, offs, mode, dir, a, work) ==
  IF L = Err \/ a > Len(rsh) THEN L
  ELSE IF L.sh[a] <= rsh[a] THEN PadLoop(L, rsh, offs, mode, dir, a + 1, work)      \* restriction: nothing to do
  ELSE LET L1 == PadAxis(L, rsh, offs, mode, dir, a, work)
           w1 == [work EXCEPT ![a] = IF dir = "forward" THEN FULL ELSE InterLhs(L.sh, rsh, offs)[a]]
       IN  IF L1 = Err THEN Err ELSE PadLoop(L1, rsh, offs, mode, dir, a + 1, w1)

ApplyPadding(L, rsh, offs, mode, dir) ==
  IF mode \notin {"periodic", "symmetric", "order0", "order1"} THEN L
  ELSE PadLoop(L, rsh, offs, mode, dir, 1,
               IF dir = "forward" THEN InterLhs(L.sh, rsh, offs) ELSE [a \in 1..Len(rsh) |-> FULL])

(* ---------------- resize_array -------------------------------------------- *)
ImplResize(mode, dir, c, arr, shapeOut, offs) ==
  LET out0 == Filled(shapeOut, IF dir = "forward" /\ mode = "constant" THEN c ELSE 0)
  IN  IF dir = "forward"
        THEN IF mode = "constant" THEN AssignIntersection(out0, arr, offs)
             ELSE ApplyPadding(AssignIntersection(out0, arr, offs), arr.sh, offs, mode, "forward")
        ELSE IF mode = "constant" THEN AssignIntersection(out0, arr, offs)
             ELSE AssignIntersection(out0, ApplyPadding(arr, shapeOut, offs, mode, "adjoint"), offs)

(* ---------------- ResizingOperator: _resize_discr / _offset_from_spaces ---- *)
\* One axis.  Domain: uniform partition of [lo, hi] with m nodes and flags dL, dR (grid_min / grid_max = first /
\* last node, cell_size = grid stride); new length n, off = -1 for offset None; rL, rR = the `nodes_on_bdry` entry
\* of discr_kwargs for this axis (on_bdry_l, on_bdry_r).  The function computes new_minpt / new_maxpt and hands
\* them with (rL, rR) to uniform_partition, which determines the cell side and the first node of the range.
\* `fixed` selects the repaired form of the explicit-offset branch (KF-C16-1, commit aeed2a0).
ImplRangeB(lo, hi, m, n, off, dL, dR, rL, rR, fixed) ==
  LET h     == CellSideB(lo, hi, m, dL, dR)                          \* discr.cell_sides
      gmin  == Node0B(lo, hi, m, dL, dR)                             \* discr.grid.min()
      gmax  == QAdd(gmin, QMul(QI(m - 1), h))                        \* discr.grid.max()
      ndiff == n - m
      numr  == IF m = n THEN 0
               ELSE IF off = -1 THEN ndiff \div 2                   \* Python floor division
               ELSE IF fixed /\ ndiff < 0 THEN ndiff + off
               ELSE ndiff - off
      numl  == IF m = n THEN 0
               ELSE IF off = -1 THEN ndiff - numr
               ELSE IF fixed /\ ndiff < 0 THEN -off
               ELSE off
      newlo == IF rL = 1 THEN QSub(gmin, QMul(QI(numl), h))                           \* on_bdry_l
                         ELSE QSub(gmin, QMul(QAdd(QI(numl), <<1, 2>>), h))
      newhi == IF rR = 1 THEN QAdd(gmax, QMul(QI(numr), h))                           \* on_bdry_r
                         ELSE QAdd(gmax, QMul(QAdd(QI(numr), <<1, 2>>), h))
      \* uniform_partition(new_minpt, new_maxpt, n, nodes_on_bdry=(rL, rR))
      rh    == CellSideB(newlo, newhi, n, rL, rR)
  IN  [lo |-> newlo, hi |-> newhi, cell |-> rh, node0 |-> Node0B(newlo, newhi, n, rL, rR), domnode0 |-> gmin, domcell |-> h]
ImplRange(lo, hi, m, n, off, fixed) == ImplRangeB(lo, hi, m, n, off, 0, 0, 0, 0, fixed)
\* _offset_from_spaces: |ran.grid.min - dom.grid.min| / dom.cell_sides, 0 on unaffected axes
ImplOffsetB(m, n, r) ==
  IF m = n THEN 0
  ELSE LET q == QDiv(QAbs(QSub(r.node0, r.domnode0)), r.domcell)
       IN  q[1] \div q[2]                                           \* integral in every case considered
\* refinement: range limits, cell side, grid alignment and offset agree with the reference; with fixed = FALSE the
\* (meanwhile repaired) finding KF-C16-1 is the one excluded cell, where the model must show the defect
ImplRangeCorrectForB(lo, hi, m, n, off, dL, dR, rL, rR, fixed) ==
  LET r == ImplRangeB(lo, hi, m, n, off, dL, dR, rL, rR, fixed)
      o == ImplOffsetB(m, n, r)
      h == CellSideB(lo, hi, m, dL, dR)
      agrees(oo) == /\ r.lo = RangeLoB(lo, hi, m, n, oo, dL, dR, rL)
                    /\ r.hi = RangeHiB(lo, hi, m, n, oo, dL, dR, rR)
                    /\ r.cell = h
                    /\ r.node0 = RangeNode0B(lo, hi, m, n, oo, dL, dR)
  IN  IF off = -1 THEN DefaultOffsetOK(m, n, o) /\ agrees(o)
      ELSE IF ~fixed /\ n < m /\ off > 0
        THEN o = off /\ r.node0 # RangeNode0B(lo, hi, m, n, off, dL, dR)
      ELSE o = (IF m = n THEN 0 ELSE off) /\ agrees(o)
ImplRangeCorrectFor(lo, hi, m, n, off, fixed) == ImplRangeCorrectForB(lo, hi, m, n, off, 0, 0, 0, 0, fixed)

(* ---------------- refinement statement ------------------------------------ *)
ProbeArrs(N) == {ZeroArr(N)} \cup {UnitArr(N, j) : j \in 1..N}
ImplCorrectFor(mode, dir, c, shapeIn, shapeOut, offs) ==
  LET N == SizeR(shapeIn) IN
  IF AdmissibleND(mode, dir, shapeIn, shapeOut, offs)
    THEN \A x \in ProbeArrs(N) :
           LET r == ImplResize(mode, dir, c, [sh |-> shapeIn, v |-> Eager(x)], shapeOut, offs)
           IN  r # Err /\ r.sh = shapeOut /\ r.v = ResizeI(mode, dir, c, shapeIn, shapeOut, offs, Eager(x))
    ELSE ImplResize(mode, dir, c, [sh |-> shapeIn, v |-> Eager(ZeroArr(N))], shapeOut, offs) = Err
=============================================================================

---------------------------- MODULE IterMiscImpl ----------------------------
(***************************************************************************)
(* Layer C (extension stage "itermisc"): the loop bodies of                 *)
(*   odl/solvers/iterative/iterative.py   conjugate_gradient, gauss_newton, *)
(*                                        landweber (projection), kaczmarz  *)
(*   odl/solvers/iterative/statistical.py osmlem (mlem = one subset)        *)
(*   odl/solvers/nonsmooth/difference_convex.py  dca, prox_dca              *)
(* transcribed AS WRITTEN, with their temporaries, early returns, the       *)
(* in-place updates, the eps clamps and the handling of the                 *)
(* `sensitivities` / `zero_seq` arguments.  Checked by TLC to refine layer  *)
(* A on every state of the bounded machine (MC_IterMiscImpl).               *)
(* Result records: [x, ys] - the caller's x after the call and the          *)
(* sequence of values the callback saw.                                    *)
(***************************************************************************)
EXTENDS IterMiscSem

(* ---- conjugate_gradient(op, x, rhs, niter, callback) ---------------------
     r = op(x); r.lincomb(1, rhs, -1, r); p = r.copy(); d = op.domain.element()
     sqnorm_r_old = r.norm() ** 2
     if sqnorm_r_old == 0: return
     for _ in range(niter):
         op(p, out=d); inner_p_d = p.inner(d)
         if inner_p_d == 0.0: return
         alpha = sqnorm_r_old / inner_p_d
         x.lincomb(1, x, alpha, p); r.lincomb(1, r, -alpha, d)
         sqnorm_r_new = r.norm() ** 2; beta = sqnorm_r_new / sqnorm_r_old; sqnorm_r_old = sqnorm_r_new
         p.lincomb(1, r, beta, p); callback(x)                                                          *)
RECURSIVE CGLoop(_, _, _, _)
CGLoop(A, w, s, left) ==                 \* s = [x, r, p, old, ys]
  IF left = 0 THEN s
  ELSE LET d   == FV(MatVec(A, s.p))
           ipd == WDot(w, s.p, d)
       IN  IF SIsZero(ipd) THEN s                                  \* early return
           ELSE LET alpha == SDiv(s.old, ipd)
                    x1 == FV(RLin(QOne, s.x, alpha, s.p))
                    r1 == FV(RLin(QOne, s.r, SNeg(alpha), d))
                    new == WDot(w, r1, r1)
                    beta == SDiv(new, s.old)
                    p1 == FV(RLin(QOne, r1, beta, s.p))
                IN  CGLoop(A, w, [x |-> x1, r |-> r1, p |-> p1, old |-> new, ys |-> Append(s.ys, x1)], left - 1)
CGImpl(A, w, rhs, x0, niter) ==
  LET r0  == FV(RLin(QOne, rhs, SNeg(QOne), MatVec(A, x0)))
      old == WDot(w, r0, r0)
  IN  IF SIsZero(old) THEN [x |-> x0, ys |-> <<>>]                 \* "Return if no step forward"
      ELSE LET s == CGLoop(A, w, [x |-> x0, r |-> r0, p |-> r0, old |-> old, ys |-> <<>>], niter)
           IN  [x |-> s.x, ys |-> s.ys]

(* ---- gauss_newton(op, x, rhs, niter, zero_seq=exp_zero_seq(2.0), callback) ---
     x0 = x.copy(); dx = op.domain.zero()
     for _ in range(niter):
         tm = next(zero_seq); deriv = op.derivative(x)
         v = rhs - op(x) - deriv(x0 - x); u = deriv.adjoint(v)
         tikh_op = deriv.adjoint o deriv + tm * id
         conjugate_gradient(tikh_op, dx, u, 3)        (dx is NOT reset: warm start)
         x.lincomb(1, x0, 1, dx); callback(x)
   zs(j) = the value the j-th next() of this call returns.  The inner CG runs in the domain, whose (constant)
   weight cancels in alpha and beta: unit weights.                                                        *)
RECURSIVE GNLoop(_, _, _, _, _, _)
GNLoop(I, zs(_), x0, s, j, niter) ==      \* s = [x, dx, ys]
  IF j > niter THEN s
  ELSE LET tm == zs(j)
           J  == FM(GNJ(I, s.x))
           Ja == FM(MatScal(I.ac, MatT(J)))
           v  == FV(RSub(RSub(I.b, GNF(I, s.x)), MatVec(J, RSub(x0, s.x))))
           u  == FV(MatVec(Ja, v))
           T  == FM(MatAddDiag(MatMul(Ja, J), tm))
           dx == CGImpl(T, ROne(Len(x0)), u, s.dx, 3).x
           x1 == FV(RLin(QOne, x0, QOne, dx))
       IN  GNLoop(I, zs, x0, [x |-> x1, dx |-> dx, ys |-> Append(s.ys, x1)], j + 1, niter)
GNImpl(I, zs(_), niter) ==
  LET s == GNLoop(I, zs, I.x0, [x |-> I.x0, dx |-> RZero(Len(I.x0)), ys |-> <<>>], 1, niter)
  IN  [x |-> s.x, ys |-> s.ys]

\* the DEFAULT argument is ONE generator object created when the function is defined: a call that relies on it
\* continues where the previous such call stopped (consumed = number of values already taken from it)
DefaultZS(consumed, j) == ExpZero(<<2, 1>>, consumed + j - 1)

(* ---- osmlem(op, x, data, niter, callback, sensitivities=None) ----------------
     eps = 1e-8
     sensitivities is None:  [np.maximum(opi.adjoint(opi.range.one()), eps) for opi in op]
     else: try: list(sensitivities)  except TypeError: sensitivities = [sensitivities] * n_ops
           (an ELEMENT of the domain is iterable: it passes the `list` test and is then INDEXED per subset -
            sensitivities[i] is its i-th component)
     for _ in range(niter): for i in range(n_ops):
         op[i](x, out=tmp_ran[i]); tmp_ran[i] = max(tmp_ran[i], eps); tmp_ran[i] = data[i] / tmp_ran[i]
         op[i].adjoint(tmp_ran[i], out=tmp_dom); tmp_dom /= sensitivities[i]; x *= tmp_dom; callback(x)          *)
Eps == <<1, 100000000>>
\* max(x, eps) without leaving 32 bits:  n/d >= 1e-8  iff  n * 1e8 >= d  (n >= 22 decides it, d < 2^31)
ClampEps(x) == IF x[1] <= 0 THEN Eps ELSE IF x[1] >= 22 THEN x ELSE IF x[1] * 100000000 >= x[2] THEN x ELSE Eps
RMaxS(u, a) == [q \in 1..Len(u) |-> ClampEps(u[q])]
\* sk: "none" | "list" (one element per subset) | "scalar" (a float) | "elem" (ONE domain element)
SensAsWritten(I, sk, i) ==
  CASE sk = "none"   -> RMaxS(RScal(I.ac, MatTVec(I.As[i], ROne(Len(I.As[i])))), Eps)
    [] sk = "list"   -> I.sens[i]
    [] sk = "scalar" -> I.sens[i]                                        \* constant vector = broadcast scalar
    [] sk = "elem"   -> I.sens[1]         \* repaired (e46848d): ONE element(-like) is used for every subset
                                          \* (pinned code: RConst(I.sens[1][i], Len(I.x0)), the i-th COMPONENT
                                          \* broadcast - KF-EXT-ITER-3)
RECURSIVE OSSweep(_, _, _, _)
OSSweep(I, sk, s, i) ==                  \* s = [x, ys]
  IF i > Len(I.As) THEN s
  ELSE LET t1 == FV(RMaxS(MatVec(I.As[i], s.x), Eps))
           t2 == FV(RDivE(I.gs[i], t1))
           d1 == FV(RScal(I.ac, MatTVec(I.As[i], t2)))
           d2 == FV(RDivE(d1, SensAsWritten(I, sk, i)))
           x1 == FV(RMul(s.x, d2))
       IN  OSSweep(I, sk, [x |-> x1, ys |-> Append(s.ys, x1)], i + 1)
RECURSIVE OSLoop(_, _, _, _)
OSLoop(I, sk, s, left) == IF left = 0 THEN s ELSE OSLoop(I, sk, OSSweep(I, sk, s, 1), left - 1)
OSImpl(I, sk, niter) == OSLoop(I, sk, [x |-> I.x0, ys |-> <<>>], niter)
SensSpellings(I) ==
  IF I.sens = <<>> THEN {"none"}
  ELSE {"list"} \cup (IF \A q \in 1..Len(I.sens) : I.sens[q] = RConst(I.sens[1][1], Len(I.x0)) THEN {"scalar"} ELSE {})
ElemApplies(I) == I.sens # <<>> /\ (\A q \in 1..Len(I.sens) : I.sens[q] = I.sens[1]) /\ Len(I.As) <= Len(I.x0)

(* ---- landweber(op, x, rhs, niter, omega, projection, callback)  (omega given; the default rule is C12 material)
     tmp_ran = op.range.element(); tmp_dom = op.domain.element()
     for _ in range(niter):
         op(x, out=tmp_ran); tmp_ran -= rhs; op.derivative(x).adjoint(tmp_ran, out=tmp_dom)
         x.lincomb(1, x, -omega, tmp_dom)
         if projection is not None: projection(x)
         if callback is not None: callback(x)                                                          *)
RECURSIVE LWLoop(_, _, _)
LWLoop(I, s, left) ==
  IF left = 0 THEN s
  ELSE LET tr == FV(RSub(MatVec(I.L, s.x), I.b))
           td == FV(RScal(I.ac, MatTVec(I.L, tr)))
           x1 == FV(RLin(QOne, s.x, SNeg(I.om[1]), td))
           x2 == IF I.proj = "none" THEN x1 ELSE FV(ProjOf(I.proj, x1))
       IN  LWLoop(I, [x |-> x2, ys |-> Append(s.ys, x2)], left - 1)
LWImpl(I, niter) == LWLoop(I, [x |-> I.x0, ys |-> <<>>], niter)

(* ---- kaczmarz(ops, x, rhs, niter, omega=1, projection=None, random=False, callback, callback_loop='outer')
     omega = normalized_scalar_param_list(omega, len(ops), param_conv=float)   (a scalar is replicated)
     for _ in range(niter): for i in range(len(ops)):
         ops[i](x, out=tmp_ran); tmp_ran -= rhs[i]; ops[i].derivative(x).adjoint(tmp_ran, out=tmp_dom)
         x.lincomb(1, x, -omega[i], tmp_dom)
         callback(x) if callback_loop == 'inner'
       callback(x) if callback_loop == 'outer'
   osp: "scalar" (one float for all blocks) | "seq" ; loop: "inner" | "outer"                          *)
OmegaAsWritten(I, osp, i) == IF osp = "scalar" THEN I.om[1] ELSE I.om[i]
RECURSIVE KZSweep(_, _, _, _, _)
KZSweep(I, osp, loop, s, i) ==
  IF i > Len(I.As) THEN s
  ELSE LET tr == FV(RSub(MatVec(I.As[i], s.x), I.gs[i]))
           td == FV(RScal(I.ac, MatTVec(I.As[i], tr)))
           x1 == FV(RLin(QOne, s.x, SNeg(OmegaAsWritten(I, osp, i)), td))
       IN  KZSweep(I, osp, loop, [x |-> x1, ys |-> IF loop = "inner" THEN Append(s.ys, x1) ELSE s.ys], i + 1)
RECURSIVE KZLoop(_, _, _, _, _)
KZLoop(I, osp, loop, s, left) ==
  IF left = 0 THEN s
  ELSE LET t == KZSweep(I, osp, loop, s, 1)
       IN  KZLoop(I, osp, loop, [t EXCEPT !.ys = IF loop = "outer" THEN Append(t.ys, t.x) ELSE t.ys], left - 1)
KZImpl(I, osp, loop, niter) == KZLoop(I, osp, loop, [x |-> I.x0, ys |-> <<>>], niter)
OmegaSpellings(I) == {"seq"} \cup (IF \A q \in 1..Len(I.om) : I.om[q] = I.om[1] THEN {"scalar"} ELSE {})

(* ---- dca:  f_convex_conj.gradient(g.gradient(x), out=x) ; callback(x)
        prox_dca:  f.proximal(gamma)(x.lincomb(1, x, gamma, g.gradient(x)), out=x) ; callback(x)
   (x.lincomb writes into x and returns it: the prox is evaluated at the updated x, written to x)          *)
RECURSIVE DCLoop(_, _, _, _)
DCLoop(I, kind, s, left) ==
  IF left = 0 THEN s
  ELSE LET x1 == IF kind = "dca" THEN FV(GradConj(I.f, FV(Grad(I.g, s.x))))
                 ELSE LET xl == FV(RLin(QOne, s.x, I.gam, FV(Grad(I.g, s.x)))) IN FV(Prox(I.f, I.gam, xl))
       IN  DCLoop(I, kind, [x |-> x1, ys |-> Append(s.ys, x1)], left - 1)
DCImpl(I, kind, niter) == DCLoop(I, kind, [x |-> I.x0, ys |-> <<>>], niter)
=============================================================================

----------------------------- MODULE LincombImpl -----------------------------
(***************************************************************************)
(* Layer C: implementation-shaped model of                                  *)
(*     odl/space/npy_tensors.py : _lincomb_impl(a, x1, b, x2, out)          *)
(* at the grain of its primitive buffer operations (scal, axpy, copy,       *)
(* zero-fill, the direct expression) on an aliased heap.  The regime        *)
(* ("direct" < THRESHOLD_SMALL, "fallback" NumPy in-place forms, "blas")    *)
(* and the dtype class select the primitive forms exactly as the code does. *)
(* A primitive that the code cannot execute for the dtype (true division    *)
(* in place on an integer buffer) yields the token Err.                     *)
(*                                                                         *)
(* Refinement statement (checked by TLC for every cell):                    *)
(*     Impl(h, a, x1, b, x2, out, regime).heap = Post(h, lincomb).heap      *)
(***************************************************************************)
EXTENDS Vec, TLC

Err == << >>     \* "TypeError": the primitive cannot run for this dtype (heaps are non-empty tuples)

\* ---- primitives on a heap h (function object -> value), each returns a heap or Err
Scal(h, s, o) == IF h = Err THEN Err ELSE [h EXCEPT ![o] = VScal(s, h[o])]
Copy(h, src, dst) == IF h = Err THEN Err ELSE [h EXCEPT ![dst] = h[src]]
ZeroFill(h, o) == IF h = Err THEN Err ELSE [h EXCEPT ![o] = VZeroN(Len(h[o]))]
\* axpy(x, y, n, s):  y <- y + s*x
\*   blas form: as stated.
\*   fallback form (pinned tree): if s # 0:  y /= s ; y += x ; y *= s   (skipped when s = 0)
\*   fallback form after the repair (FixedAxpy): if s # 0:  y += s*x
Axpy(h, src, dst, s, regime, intdtype, fixed) ==
  IF h = Err THEN Err
  ELSE IF regime = "blas" THEN [h EXCEPT ![dst] = VAdd(h[dst], VScal(s, h[src]))]
  ELSE IF s = CZero THEN h
  ELSE IF fixed THEN [h EXCEPT ![dst] = VAdd(h[dst], VScal(s, h[src]))]
  ELSE IF intdtype THEN Err       \* in-place true division on an integer buffer
  ELSE LET d  == VScal(CInv(s), h[dst])           \* y /= s
           h1 == [h EXCEPT ![dst] = d]
           h2 == [h1 EXCEPT ![dst] = VAdd(h1[dst], h1[src])]   \* y += x (x may be y after aliasing: not here, src # dst)
       IN  [h2 EXCEPT ![dst] = VScal(s, h2[dst])]  \* y *= s

\* ---- the decision tree; returns [heap, leaf]
RECURSIVE Tree(_, _, _, _, _, _, _, _, _)
Tree(h, a, x1, b, x2, out, regime, intdtype, fixed) ==
  IF x1 = x2 /\ b # CZero THEN
       LET r == Tree(h, CAdd(a, b), x1, CZero, x1, out, regime, intdtype, fixed)
       IN  [heap |-> r.heap, leaf |-> "rec/" \o r.leaf]
  ELSE IF out = x1 /\ out = x2 THEN
       IF CAdd(a, b) # CZero
         THEN [heap |-> Scal(h, CAdd(a, b), out), leaf |-> "all/scal"]
         ELSE [heap |-> ZeroFill(h, out), leaf |-> "all/zero"]
  ELSE IF out = x1 THEN
       LET h1 == IF a # COne THEN Scal(h, a, out) ELSE h
           h2 == IF b # CZero THEN Axpy(h1, x2, out, b, regime, intdtype, fixed) ELSE h1
       IN  [heap |-> h2, leaf |-> "o1" \o (IF a # COne THEN "/scal" ELSE "") \o (IF b # CZero THEN "/axpy" ELSE "")]
  ELSE IF out = x2 THEN
       LET h1 == IF b # COne THEN Scal(h, b, out) ELSE h
           h2 == IF a # CZero THEN Axpy(h1, x1, out, a, regime, intdtype, fixed) ELSE h1
       IN  [heap |-> h2, leaf |-> "o2" \o (IF b # COne THEN "/scal" ELSE "") \o (IF a # CZero THEN "/axpy" ELSE "")]
  ELSE IF b = CZero THEN
       IF a = CZero THEN [heap |-> ZeroFill(h, out), leaf |-> "zero"]
       ELSE LET h1 == Copy(h, x1, out)
            IN [heap |-> IF a # COne THEN Scal(h1, a, out) ELSE h1,
                leaf |-> "scopy1" \o (IF a # COne THEN "/scal" ELSE "")]
  ELSE IF a = CZero THEN
       LET h1 == Copy(h, x2, out)
       IN [heap |-> IF b # COne THEN Scal(h1, b, out) ELSE h1,
           leaf |-> "scopy2" \o (IF b # COne THEN "/scal" ELSE "")]
  ELSE IF a = COne THEN
       [heap |-> Axpy(Copy(h, x1, out), x2, out, b, regime, intdtype, fixed), leaf |-> "x1+b*x2"]
  ELSE LET h1 == Copy(h, x2, out)
           h2 == IF b # COne THEN Scal(h1, b, out) ELSE h1
       IN [heap |-> Axpy(h2, x1, out, a, regime, intdtype, fixed), leaf |-> "generic"]

Impl(h, a, x1, b, x2, out, regime, intdtype, fixed) ==
  IF regime = "direct"
    THEN [heap |-> [h EXCEPT ![out] = VLincomb(a, h[x1], b, h[x2])], leaf |-> "direct"]
    ELSE Tree(h, a, x1, b, x2, out, regime, intdtype, fixed)

Ref(h, a, x1, b, x2, out) == [h EXCEPT ![out] = VLincomb(a, h[x1], b, h[x2])]

(* ----------- cell enumeration: one state per cell, no transitions -------- *)
CONSTANTS Scalars, VecSet, IntDtype, Fixed
Obj == 1..3
Regimes == {"direct", "fallback", "blas"}
VARIABLES h, a, b, x1, x2, out, regime
cvars == <<h, a, b, x1, x2, out, regime>>
Init == /\ h \in [Obj -> VecSet] /\ a \in Scalars /\ b \in Scalars
        /\ x1 \in Obj /\ x2 \in Obj /\ out \in Obj
        /\ regime \in (IF IntDtype THEN {"direct", "fallback"} ELSE Regimes)   \* BLAS never applies to integer dtypes
Next == UNCHANGED cvars
Spec == Init /\ [][Next]_cvars

Result == Impl(h, a, x1, b, x2, out, regime, IntDtype, Fixed)
\* C ⊑ A : every leaf computes the reference value and touches nothing else
Correct == Result.heap = Ref(h, a, x1, b, x2, out)
\* the weaker statement that holds on the pinned tree: wherever the code can execute, it is right
CorrectWhereDefined == Result.heap # Err => Result.heap = Ref(h, a, x1, b, x2, out)
\* cells where the code cannot execute at all
Defined == Result.heap # Err
=============================================================================

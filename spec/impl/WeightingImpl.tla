---------------------------- MODULE WeightingImpl ----------------------------
(***************************************************************************)
(* Layer C for property C02: the decision structure of the anchored code,  *)
(* transcribed as written (current tree), in the same root-free power form   *)
(* as layer A:                                                              *)
(*   odl/space/npy_tensors.py  NumpyTensorSpaceConstWeighting.inner/norm/dist*)
(*                             NumpyTensorSpaceArrayWeighting.inner/norm,    *)
(*                             _pnorm_diagweight, _inner_default             *)
(*   odl/space/pspace.py       ProductSpaceConstWeighting / ArrayWeighting   *)
(*   odl/discr/discr_space.py  DiscretizedSpace._inner/_norm/_dist,          *)
(*                             is_uniformly_weighted, _scaling_func_list,    *)
(*                             uniform_discr_frompartition (default weight)  *)
(*   odl/discr/partition.py    boundary_cell_fractions                       *)
(*   odl/util/numerics.py      apply_on_boundary(only_once=False)            *)
(* A call the code cannot complete (NotImplementedError) yields Raise.      *)
(* TLC checks  Impl = layer A  on every explored case except the cells      *)
(* named by KnownCell, and that every KnownCell case really differs.        *)
(***************************************************************************)
EXTENDS SpaceSem

Raise == <<-7, 0>>          \* not a rational (denominator 0), never produced by arithmetic here

(* --- discretised spaces ------------------------------------------------- *)
\* uniform_discr_frompartition: weighting = 1.0 if exponent == inf (or ndim == 0) else partition.cell_volume
ImplDiscrConst(spc) == IF spc.p = PInf THEN QOne ELSE CellVolume(spc)
\* RectPartition.boundary_cell_fractions: (1.0, 1.0) on a one-node axis, else the two formulas
ImplFracs(spc) == [a \in 1..Len(spc.axes) |-> <<FracL(spc.axes[a]), FracR(spc.axes[a])>>]
\* DiscretizedSpace.is_uniformly_weighted:
\*     np.allclose(bdry_fracs, 1.0) or exponent == inf or not hasattr(tspace, 'weighting')
\* (a NumpyTensorSpace always has a weighting, so the third disjunct is FALSE here; before commit
\*  2dbd74a it read "not tspace.is_weighted", which dropped the fractions for cell volume 1.0)
ImplUniformlyWeighted(spc) ==
  \/ \A a \in 1..Len(spc.axes) : ImplFracs(spc)[a] = <<QOne, QOne>>
  \/ spc.p = PInf
\* _scaling_func_list + apply_on_boundary(only_once=False): the slab i_a = 0 is scaled by the left
\* factor, the slab i_a = n_a - 1 by the right factor, one axis after the other (corners get both;
\* on a two-node... and on a ONE-node axis both slabs are the same entry, but there the factors are 1).
ImplScale(spc, i) ==
  QProdSeq([a \in 1..Len(spc.axes) |->
     LET j == AxIdx(Shape(spc), a, i - 1)  n == spc.axes[a].n  f == ImplFracs(spc)[a]
     IN  QMul(IF j = 0 THEN f[1] ELSE QOne, IF j = n - 1 THEN f[2] ELSE QOne)])
\* the effective weights of the pinned code (x is scaled by frac^(1/p) before the const-weighted p-norm)
ImplDiscrWeights(spc) ==
  IF ImplUniformlyWeighted(spc) THEN [i \in 1..spc.n |-> ImplDiscrConst(spc)]
  ELSE [i \in 1..spc.n |-> QMul(ImplDiscrConst(spc), ImplScale(spc, i))]

ImplLeafWeights(spc) == IF spc.kind = "discr" THEN ImplDiscrWeights(spc) ELSE TensorWeights(spc)

\* a zero-size tensor space (shape 0): BLAS nrm2 refuses n = 0 (const weighting, exponent 2) and the maximum
\* of an empty array has no identity (exponent inf); norm() / dist() raise although ||0|| = 0
RECURSIVE HasZeroSize(_)
HasZeroSize(spc) == IF IsLeaf(spc) THEN spc.n = 0 ELSE \E k \in 1..Len(spc.parts) : HasZeroSize(spc.parts[k])
ZeroSizeRaises(spc) ==
  IsLeaf(spc) /\ spc.n = 0 /\ ~IsCustom(spc)
  /\ ((spc.w.k # "array" /\ spc.p \in {2, PInf}) \/ (spc.w.k = "array" /\ spc.p = PInf))

\* effective weights of the current code, as a weight tree (computed once per case)
RECURSIVE ImplWTree(_)
ImplWTree(spc) ==
  IF IsLeaf(spc) THEN [w |-> (IF IsCustom(spc) THEN [i \in 1..spc.n |-> QI(i)] ELSE ImplLeafWeights(spc)), sub |-> <<>>]
  ELSE [w |-> CompWeights(spc), sub |-> [k \in 1..Len(spc.parts) |-> ImplWTree(spc.parts[k])]]

(* --- leaves ------------------------------------------------------------- *)
\* const: c * vdot(x2, x1) ; array: _inner_default(x1 * w, x2) ; custom: the callable
\* const: sqrt(c)*nrm2 | c*max | c**(1/p)*pnorm ;  array: sqrt(inner) | max(|x|*w) | sum(|x|**p * w)**(1/p)
\* -- in power form both are the weighted sums of layer A over the EFFECTIVE weights
(* --- product spaces ----------------------------------------------------- *)
RECURSIVE ImplInnerW(_, _, _, _), ImplNormPowW(_, _, _), ImplDistPowW(_, _, _, _)
\* inner raises NotImplementedError unless exponent == 2 at this level and in every component
ImplInnerOk(spc) == InnerDefined(spc)
ImplInnerW(wt, spc, x, y) ==
  IF IsLeaf(spc) THEN LeafInner(wt.w, x, y)
  ELSE CSumSeq([k \in 1..Len(spc.parts) |-> CScal(wt.w[k], ImplInnerW(wt.sub[k], spc.parts[k], x[k], y[k]))])

\* ProductSpace{Const,Array}Weighting.norm:
\*   exponent == 2 :  sqrt(self.inner(x, x).real)      -- needs the COMPONENT inner products
\*   otherwise     :  norms = [xi.norm()], weighted, np.linalg.norm(norms, ord=p)
ImplCombine(wt, spc, cn) ==
  IF \E k \in 1..Len(cn) : cn[k] = Raise THEN Raise
  ELSE LET t == [k \in 1..Len(cn) |-> QMul(wt.w[k], CompTerm(cn[k], Pow(spc.parts[k]), Pow(spc)))]
       IN  IF spc.p = PInf THEN QMaxSeq(t) ELSE QSumSeq(t)
ImplNormPowW(wt, spc, x) ==
  IF IsLeaf(spc) THEN (IF ZeroSizeRaises(spc) THEN Raise ELSE LeafNormPowW(wt.w, spc, x))
  ELSE IF spc.p = 2
    THEN IF ImplInnerOk(spc) THEN ImplInnerW(wt, spc, x, x)[1] ELSE Raise
    ELSE ImplCombine(wt, spc, [k \in 1..Len(spc.parts) |-> ImplNormPowW(wt.sub[k], spc.parts[k], x[k])])

\* ProductSpaceConstWeighting.dist: dnorms = [(x1i - x2i).norm()], const**(1/p) * norm(dnorms, p)
\*   (also for p = 2: no inner product involved);  ArrayWeighting has no dist: norm(x1 - x2)
ImplDistPowW(wt, spc, x, y) ==
  IF IsLeaf(spc) THEN (IF IsCustomDist(spc) THEN DistPowW(wt, spc, x, y)
                       ELSE IF ZeroSizeRaises(spc) THEN Raise
                       ELSE LeafNormPowW(wt.w, spc, VSub(x, y)))
  ELSE IF spc.w.k = "array" THEN ImplNormPowW(wt, spc, TSub(spc, x, y))
  ELSE ImplCombine(wt, spc, [k \in 1..Len(spc.parts) |->
                               ImplNormPowW(wt.sub[k], spc.parts[k], TSub(spc.parts[k], x[k], y[k]))])

ImplInner(spc, x, y)   == ImplInnerW(ImplWTree(spc), spc, x, y)
ImplNormPow(spc, x)    == ImplNormPowW(ImplWTree(spc), spc, x)
ImplDistPow(spc, x, y) == ImplDistPowW(ImplWTree(spc), spc, x, y)

(* --- cells where the current code is known (by this model) to leave layer A *)
RECURSIVE HasNoInnerUnderP2(_)
\* a product space with exponent 2 over a component without inner product: norm() goes through inner()
\* (open finding KF-C02-2)
NoInnerUnderP2(spc) == ~IsLeaf(spc) /\ spc.p = 2 /\ ~InnerDefined(spc)
HasNoInnerUnderP2(spc) ==
  IF IsLeaf(spc) THEN FALSE
  ELSE NoInnerUnderP2(spc) \/ \E k \in 1..Len(spc.parts) : HasNoInnerUnderP2(spc.parts[k])
KnownCell(spc) == HasNoInnerUnderP2(spc) \/ HasZeroSize(spc)
\* family features of a space (they name the cell in the signature of a finding)
Features(spc) == (IF HasNoInnerUnderP2(spc) THEN {"p2-no-inner"} ELSE {})
                 \cup (IF HasZeroSize(spc) THEN {"zero-size"} ELSE {})
=============================================================================

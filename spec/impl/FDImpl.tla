------------------------------- MODULE FDImpl -------------------------------
(***************************************************************************)
(* Layer C (property C13): implementation-shaped model of                   *)
(*     odl/discr/diff_ops.py : finite_diff(f, axis, dx, method, out,        *)
(*                                         pad_mode, pad_const)             *)
(* for one line along the axis, at the grain of its NumPy statements:       *)
(*   1. the length checks,                                                  *)
(*   2. the interior slice statement  out[1:-1] = ...  per method,          *)
(*   3. per (pad_mode, method) the boundary statements  out[0] = ...,       *)
(*      out[-1] = ...  and the in-place corrections  out[1] -= ...,         *)
(*      out[-2] += ...  ("in case array is very short and we get            *)
(*      aliasing") in program order, with Python's negative indices,        *)
(*   4. out /= dx.                                                          *)
(* `out` starts as np.empty: modelled by an arbitrary junk vector, so an    *)
(* entry the statements never assign shows up as a mismatch.  An index      *)
(* outside the array (out[2] on a 2-array) and a failed length check give   *)
(* the token Err.  TLC checks Impl = FD (layer A) on the probe vectors      *)
(* 0, e_1 .. e_n for every configuration, i.e. equality of the full         *)
(* matrices and affine parts.                                               *)
(***************************************************************************)
EXTENDS FDSem

Err == <<"err">>

\* Python index k (0-based, negative from the end) -> 1-based position, 0 if out of range
Ix(n, k) == IF k >= 0 THEN (IF k < n THEN k + 1 ELSE 0) ELSE (IF n + k >= 0 THEN n + k + 1 ELSE 0)

Half  == <<1, 2>>
Q32   == <<3, 2>>

\* run a list of statements <<kind, pyindex, value>> on out; kind "set": out[k] = v, "add": out[k] += v
RECURSIVE Run(_, _)
Run(out, steps) ==
  IF out = Err \/ steps = <<>> THEN out
  ELSE LET s == Head(steps)
           k == Ix(Len(out), s[2])
       IN  IF k = 0 THEN Err
           ELSE Run([out EXCEPT ![k] = IF s[1] = "set" THEN s[3] ELSE QAdd(@, s[3])], Tail(steps))

Set(k, v) == <<"set", k, v>>
Add(k, v) == <<"add", k, v>>
Sub(k, v) == <<"add", k, QNeg(v)>>

\* the boundary statements of one (pad_mode, method) block; F(k) = f_arr[k] with a Python index
Boundary(method, pad, c, f) ==
  LET n == Len(f)
      F(k) == f[Ix(n, k)]
      m(q, v) == QMul(q, v)
  IN
  CASE pad = "constant" ->
         (CASE method = "central"  -> << Set(0, QHalf(QSub(F(1), c))), Set(-1, QHalf(QSub(c, F(-2)))) >>
           [] method = "forward"  -> << Set(0, QSub(F(1), F(0))), Set(-1, QSub(c, F(-1))) >>
           [] method = "backward" -> << Set(0, QSub(F(0), c)), Set(-1, QSub(F(-1), F(-2))) >>)
    [] pad \in {"symmetric", "order0"} ->
         (CASE method = "central"  -> << Set(0, QHalf(QSub(F(1), F(0)))), Set(-1, QHalf(QSub(F(-1), F(-2)))) >>
           [] method = "forward"  -> << Set(0, QSub(F(1), F(0))), Set(-1, QZero) >>
           [] method = "backward" -> << Set(0, QZero), Set(-1, QSub(F(-1), F(-2))) >>)
    [] pad \in {"symmetric_adjoint", "order0_adjoint"} ->
         (CASE method = "central"  -> << Set(0, QHalf(QAdd(F(1), F(0)))), Set(-1, QHalf(QSub(QNeg(F(-1)), F(-2)))) >>
           [] method = "forward"  -> << Set(0, F(1)), Set(-1, QNeg(F(-1))) >>
           [] method = "backward" -> << Set(0, F(0)), Set(-1, QNeg(F(-2))) >>)
    [] pad = "periodic" ->
         (CASE method = "central"  -> << Set(0, QHalf(QSub(F(1), F(-1)))), Set(-1, QHalf(QSub(F(0), F(-2)))) >>
           [] method = "forward"  -> << Set(0, QSub(F(1), F(0))), Set(-1, QSub(F(0), F(-1))) >>
           [] method = "backward" -> << Set(0, QSub(F(0), F(-1))), Set(-1, QSub(F(-1), F(-2))) >>)
    [] pad = "order1" ->        \* independent of method
         << Set(0, QSub(F(1), F(0))), Set(-1, QSub(F(-1), F(-2))) >>
    [] pad = "order1_adjoint" ->
         (CASE method = "central"  -> << Set(0, QAdd(F(0), QHalf(F(1)))), Set(-1, QSub(QNeg(F(-1)), QHalf(F(-2)))),
                                        Sub(1, QHalf(F(0))), Add(-2, QHalf(F(-1))) >>
           [] method = "forward"  -> << Set(0, QAdd(F(0), F(1))), Set(-1, QNeg(F(-1))),
                                        Sub(1, F(0)) >>
           [] method = "backward" -> << Set(0, F(0)), Set(-1, QSub(QNeg(F(-1)), F(-2))),
                                        Add(-2, F(-1)) >>)
    [] pad = "order2" ->
         << Set(0, QNeg(QHalf(QAdd(QSub(m(QI(3), F(0)), m(QI(4), F(1))), F(2))))),
            Set(-1, QHalf(QAdd(QSub(m(QI(3), F(-1)), m(QI(4), F(-2))), F(-3)))) >>
    [] pad = "order2_adjoint" ->
         (CASE method = "central"  -> << Set(0, QAdd(m(Q32, F(0)), m(Half, F(1)))),
                                        Set(-1, QSub(QNeg(m(Q32, F(-1))), m(Half, F(-2)))),
                                        Sub(1, m(Q32, F(0))), Add(2, m(Half, F(0))),
                                        Sub(-3, m(Half, F(-1))), Add(-2, m(Q32, F(-1))) >>
           [] method = "forward"  -> << Set(0, QAdd(m(Q32, F(0)), F(1))),
                                        Set(-1, QNeg(m(Q32, F(-1)))),
                                        Sub(1, m(QTwo, F(0))), Add(2, m(Half, F(0))),
                                        Sub(-3, m(Half, F(-1))), Add(-2, F(-1)) >>
           [] method = "backward" -> << Set(0, m(Q32, F(0))),
                                        Set(-1, QSub(QNeg(F(-2)), m(Q32, F(-1)))),
                                        Sub(1, F(0)), Add(2, m(Half, F(0))),
                                        Sub(-3, m(Half, F(-1))), Add(-2, m(QTwo, F(-1))) >>)

\* out[1:-1] = ...  (positions 2 .. n-1 in 1-based numbering)
Interior(method, f, junk) ==
  LET n == Len(f) IN
  [i \in 1..n |->
     IF i < 2 \/ i > n - 1 THEN junk[i]
     ELSE CASE method = "central"  -> QHalf(QSub(f[i + 1], f[i - 1]))
            [] method = "forward"  -> QSub(f[i + 1], f[i])
            [] method = "backward" -> QSub(f[i], f[i - 1])]

\* the whole function on one line; f, junk rational vectors, c, h rationals
ImplFD(method, pad, c, f, h, junk) ==
  LET n == Len(f) IN
  IF n < 2 THEN Err                                   \* "at least two elements required"
  ELSE IF n < 3 /\ pad = "order2" THEN Err            \* "size of array to small to use 'order2'"
  ELSE LET out == Run(Interior(method, f, junk), Boundary(method, pad, c, f))
       IN  IF out = Err THEN Err ELSE [i \in 1..n |-> QDiv(out[i], h)]

\* the Laplacian body for one axis: out += FD_forward ; out -= FD_backward with dx = h^2
ImplLap1(pad, c, f, h, junk) ==
  LET fw == ImplFD("forward", pad, c, f, QMul(h, h), junk)
      bw == ImplFD("backward", pad, c, f, QMul(h, h), junk)
  IN  IF fw = Err \/ bw = Err THEN Err ELSE [i \in 1..Len(f) |-> QSub(fw[i], bw[i])]

(* ---------------------------- refinement statement ---------------------- *)
Junk(n) == [i \in 1..n |-> <<1000 + 7 * i, 3>>]
Probes(n) == {ZeroV(n)} \cup {Unit(n, j) : j \in 1..n}

\* reference on rational data (c rational)
RefFD(method, pad, c, f, h) ==
  VQAdd(MatVecQ(FDMat(method, pad, Len(f), h), f), VQScale(c, FDAff(method, pad, Len(f), h)))
RefLap1(pad, c, f, h) ==
  VQAdd(MatVecQ(LapMat(pad, Len(f), h), f), VQScale(c, LapAff(pad, Len(f), h)))

ImplFDCorrect(method, pad, n, c, h) ==
  IF Admissible(pad, n)
    THEN \A f \in Probes(n) : ImplFD(method, pad, c, f, h, Junk(n)) = RefFD(method, pad, c, f, h)
    ELSE \A f \in Probes(n) : ImplFD(method, pad, c, f, h, Junk(n)) = Err
ImplLapCorrect(pad, n, c, h) ==
  pad \in LapPads =>
    \A f \in Probes(n) : ImplLap1(pad, c, f, h, Junk(n)) = RefLap1(pad, c, f, h)
=============================================================================

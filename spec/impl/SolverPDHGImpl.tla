--------------------------- MODULE SolverPDHGImpl ---------------------------
(***************************************************************************)
(* Layer C: odl/solvers/nonsmooth/primal_dual_hybrid_gradient.py : pdhg    *)
(* (constant step sizes), statement by statement.  Objects: the caller's   *)
(* x and - if passed for resumption - x_relax (xr) and y, which are then   *)
(* updated in place; x_old, dual_tmp, primal_tmp are temporaries created   *)
(* afresh by every call.  Reference: SolverSem!PDHGStep.                   *)
(***************************************************************************)
EXTENDS SolverStmt

PDHGStart(I, h) ==
  LET L == L1of(I) IN
  [x |-> h.x,
   xr |-> IF "xr" \in DOMAIN h THEN h.xr ELSE h.x,               \* x_relax = x.copy() if None
   y  |-> IF "y" \in DOMAIN h THEN h.y ELSE RZero(NRows(L)),      \* y = L.range.zero() if None
   x_old |-> Garbage(NCols(L)), dual_tmp |-> Garbage(NRows(L)), primal_tmp |-> Garbage(NCols(L))]

PDHGBody(I) == <<
  SAssign("x_old", "x"),                                              \* x_old.assign(x)
  SApply(1, "xr", "dual_tmp"),                                        \* L(x_relax, out=dual_tmp)
  SLin("dual_tmp", QOne, "y", S1of(I), "dual_tmp"),                   \* dual_tmp.lincomb(1, y, sigma, dual_tmp)
  SProx("g", 1, TRUE, S1of(I), "dual_tmp", "y"),                      \* proximal_dual_sigma(dual_tmp, out=y)
  SAdjoint(1, "y", "primal_tmp"),                                     \* L.derivative(x).adjoint(y, out=primal_tmp)
  SLin("primal_tmp", QOne, "x", SNeg(I.tau), "primal_tmp"),           \* primal_tmp.lincomb(1, x, -tau, primal_tmp)
  SProx("f", 1, FALSE, I.tau, "primal_tmp", "x"),                     \* proximal_primal_tau(primal_tmp, out=x)
  SLin("xr", SAdd(QOne, I.th), "x", SNeg(I.th), "x_old"),             \* x_relax.lincomb(1 + theta, x, -theta, x_old)
  SCallback("x") >>

PDHGPersist == {"x", "xr", "y", "x_old", "dual_tmp", "primal_tmp"}
\* what survives the return: x always; x_relax and y only if the caller owns them
PDHGApi(passed) == IF passed THEN {"x", "xr", "y"} ELSE {"x"}
PDHGAbs(I, h) == [x |-> h.x, y |-> h.y, xr |-> h.xr]
=============================================================================

---------------------------- MODULE ProxBodiesImpl ----------------------------
(***************************************************************************)
(* C10, layer C: buffer-level models of the proximal `_call(x, out)` bodies *)
(* of odl/solvers/nonsmooth/proximal_operators.py that must survive         *)
(* x is out, statement by statement on an ALIASED heap (objects 1..3;       *)
(* passing the same object for x and out is the aliased call).  Vector      *)
(* primitives have the meaning fixed by C01 (VecMachine): every statement   *)
(* reads its operands from the pre-state of that statement.                 *)
(*                                                                         *)
(*   L1       x - (x-g)/max(|x-g|/(sigma lam), 1)                           *)
(*   CCL1     lam (x - sigma g) / max(lam, |x - sigma g|)                   *)
(*   L2SQ     (x + 2 sigma lam g) / (1 + 2 sigma lam), sigma an ELEMENT     *)
(*   CCL2SQ   (x - sigma g) / (1 + sigma/(2 lam)),     sigma an ELEMENT     *)
(* Statement (layer B, VecMachine!CallAliased): the value left in x by      *)
(* P(x, out=x) equals the value P(x) returns.                               *)
(***************************************************************************)
EXTENDS Vec, TLC

CONSTANTS Vals,      \* entries of x, g (Q numbers)
          Sigmas,    \* scalar steps
          L1Pinned   \* TRUE: ProximalL1 body of the pinned tree (copy only into diff)

N == 2
RVec(S) == [1..N -> {CR(q) : q \in S}]
QV(u) == [i \in 1..Len(u) |-> u[i][1]]                      \* real parts
VAbs(u) == [i \in 1..Len(u) |-> CR(QAbs(u[i][1]))]
VMaxS(u, s) == [i \in 1..Len(u) |-> CR(QMax(u[i][1], s))]    \* elementwise max with scalar
VDivS(u, s) == [i \in 1..Len(u) |-> CR(QDiv(u[i][1], s))]

\* heap: object id -> vector ; x and out are object ids (possibly equal); fresh objects get ids >= 3
Put(h, o, v) == [h EXCEPT ![o] = v]

(* ---- ProximalL1._call(x, out), g given as a value or "none" (<<>>) ---- *)
L1Body(h, x, out, g, siglam) ==
  LET \* pinned tree:  diff = x - g (new)  |  g None: diff = x.copy() if x is out else x (ALIAS of x)
      \* repaired   :  if x is out: x = x.copy() ; diff = x - g | x
      xcopy == IF ~L1Pinned /\ x = out THEN 3 ELSE x         \* object holding the original x used at the end
      h0 == IF xcopy = 3 THEN Put(h, 3, h[x]) ELSE h
      diffv == IF g = <<>> THEN h0[x] ELSE VSub(h0[x], g)
      denom == VMaxS(VDivS(VAbs(diffv), siglam), QOne)       \* |diff| / (sigma lam), max(., 1)
      h1 == Put(h0, out, VDiv(diffv, denom))                 \* diff.ufuncs.divide(denom, out=out)
      \* out.lincomb(1, x, -1, out): reads x (object xcopy) and out from the heap AFTER the previous statement
  IN  Put(h1, out, VSub(h1[xcopy], h1[out]))

(* ---- ProximalConvexConjL1._call(x, out) ---- *)
CCL1Body(h, x, out, g, sigma, lam) ==
  LET diffv == IF g = <<>> THEN h[x] ELSE VSub(h[x], VScal(CR(sigma), g))   \* diff = x.copy() if aliased: a value either way
      h1 == Put(h, out, VAbs(diffv))                          \* diff.ufuncs.absolute(out=out)
      h2 == Put(h1, out, VMaxS(h1[out], lam))                 \* out.ufuncs.maximum(lam, out=out)
      h3 == Put(h2, out, VDivS(h2[out], lam))                 \* out /= lam
  IN  Put(h3, out, VDiv(diffv, h3[out]))                      \* diff.divide(out, out=out)  (diff is a copy when aliased)

(* ---- ProximalL2Squared._call with element sigma and g ---- *)
L2SQBody(h, x, out, g, sig, lam) ==
  LET two_lam == CR(QMul(QI(2), lam))
      tmpv == VMul(sig, VScal(two_lam, g))
      h1 == IF x = out THEN Put(h, out, VAdd(h[x], tmpv))                     \* tmp = sig.multiply(2 lam g); out.lincomb(1,x,1,tmp)
            ELSE LET ha == Put(h, out, tmpv) IN Put(ha, out, VAdd(ha[x], ha[out]))   \* sig.multiply(.., out=out); out.lincomb(1,x,1,out)
      den == VAdd(VConst(N, COne), VScal(two_lam, sig))
  IN  Put(h1, out, VDiv(h1[out], den))                        \* out.divide(1 + 2 sig lam, out=out)

(* ---- ProximalConvexConjL2Squared._call with element sigma and g ---- *)
CCL2SQBody(h, x, out, g, sig, lam) ==
  LET tmpv == VMul(sig, g)
      h1 == IF x = out THEN Put(h, out, VSub(h[x], tmpv))
            ELSE LET ha == Put(h, out, tmpv) IN Put(ha, out, VSub(ha[x], ha[out]))
      den == VAdd(VConst(N, COne), VScal(CR(QDiv(QOne, QMul(QI(2), lam))), sig))
  IN  Put(h1, out, VDiv(h1[out], den))

(* ---- cells ---- *)
VARIABLES xv, gv, sg, kind
cvars == <<xv, gv, sg, kind>>
Init == /\ xv \in RVec(Vals) /\ gv \in RVec(Vals) \cup {<<>>} /\ sg \in Sigmas
        /\ kind \in {"L1", "CCL1", "L2SQ", "CCL2SQ"}
        /\ (kind \in {"L2SQ", "CCL2SQ"} => gv # <<>>)
Next == UNCHANGED cvars
Spec == Init /\ [][Next]_cvars

Garbage == [i \in 1..N |-> CInt(77)]
SigElem == [i \in 1..N |-> CR(IF i = 1 THEN sg ELSE QMul(QI(2), sg))]
Run(x, out) ==
  LET h == <<xv, Garbage, Garbage>>          \* object 1 = x, object 2 = a separate out, object 3 = scratch
  IN CASE kind = "L1"     -> L1Body(h, x, out, gv, sg)
       [] kind = "CCL1"   -> CCL1Body(h, x, out, gv, sg, QOne)
       [] kind = "L2SQ"   -> L2SQBody(h, x, out, gv, SigElem, QOne)
       [] kind = "CCL2SQ" -> CCL2SQBody(h, x, out, gv, SigElem, QOne)

\* C10: the aliased call leaves in x what the plain call puts into a separate out
AliasedEqualsPlain == Run(1, 1)[1] = Run(1, 2)[2]
\* C03: the plain call does not modify x
PlainKeepsInput == Run(1, 2)[1] = xv
\* sanity: L1 body is soft-thresholding x -> g + sign(x-g) max(|x-g| - sigma, 0)
SoftThr(v, g, s) == [i \in 1..N |-> LET d == IF g = <<>> THEN v[i][1] ELSE QSub(v[i][1], g[i][1])
                                        b == IF g = <<>> THEN QZero ELSE g[i][1]
                                    IN CR(QAdd(b, QMul(QSign(d), QMax(QSub(QAbs(d), s), QZero))))]
L1IsSoftThreshold == kind = "L1" => Run(1, 2)[2] = SoftThr(xv, gv, sg)
=============================================================================

------------------------------- MODULE RotImpl -------------------------------
(***************************************************************************)
(* Layer C (EXT/rotphantom): the decision structure of the code AS WRITTEN *)
(* (odl/tomo/util/utility.py, odl/phantom/geometric.py), transcribed with  *)
(* exact arithmetic, so that TLC can check that it refines layer A         *)
(* (RotSem) on the bounded instances of MC_RotCases:                       *)
(*   FromToImpl   rotation_matrix_from_to: 2-d branches (dot == 0 /        *)
(*                to == -from / sign * arccos), 3-d branches (collinear -> *)
(*                perpendicular_vector and angle 0 or pi / normal, binormal *)
(*                and the sign of the angle)                               *)
(*   PerpImpl     perpendicular_vector: which components are used          *)
(*   TSysImpl     transform_system: matrix / dilation-only / rotation      *)
(*   InsideImpl   is_inside_bounds: single parameter / 1-d / broadcast     *)
(*   EllImpl      ellipsoid_phantom: bounding-box slicing (_getshapes_2d / *)
(*                _3d with max_radius from |mat|), min_pt / max_pt         *)
(*                snapping, temporary space and resize_array offset        *)
(* Switches (IOEnv.ROT_FIXED contains the letter): the transcription       *)
(* follows the code of the tree; a repaired branch is selected by its      *)
(* letter:  b = bounding box of rotated 3-d ellipsoids uses the transposed *)
(* matrix;  s = a single min_pt / max_pt shifts instead of cropping.       *)
(***************************************************************************)
EXTENDS RotSem, IOUtils

Fixed(letter) == \E i \in 1..Len(IOEnv.ROT_FIXED) : SubSeq(IOEnv.ROT_FIXED, i, i) = letter

(* ---------------------- perpendicular_vector ---------------------------- *)
\* cond = any(vec[..., :2] != 0): result[0] = -vec[1], result[1] = vec[0]; else result[0] = 1; then normalise
PerpRaw(v) == IF v[1] # QZero \/ v[2] # QZero
                THEN [i \in 1..Len(v) |-> IF i = 1 THEN QNeg(v[2]) ELSE IF i = 2 THEN v[1] ELSE QZero]
                ELSE [i \in 1..Len(v) |-> IF i = 1 THEN QOne ELSE QZero]
PerpImpl(v) == LET r == PerpRaw(v) IN IF GHasRatNorm(r) THEN GUnit(r) ELSE [i \in 1..Len(v) |-> OFFQ]

(* --------------------- rotation_matrix_from_to -------------------------- *)
\* the angle is carried as (cos, sin): sign(s) * arccos(c) has cosine c and sine sign(s) * sqrt(1 - c^2) = s whenever
\* (c, s) is on the unit circle
FromToImpl(u, v) ==
  LET f == GUnit(u)  t == GUnit(v) IN
  IF Len(u) = 2 THEN
    LET dot == GDot(f, t)
        frot == <<QNeg(f[2]), f[1]>>
        sd == GDot(frot, t)
        cs == IF dot = QZero THEN (IF QLt(QZero, sd) THEN <<QZero, QOne>> ELSE <<QZero, QNeg(QOne)>>)
              ELSE IF t = GNeg(f) THEN <<QNeg(QOne), QZero>>
              ELSE \* sign(sd) * arccos(dot): sign 0 gives the angle 0
                   IF sd = QZero THEN <<QOne, QZero>> ELSE <<dot, sd>>
    IN  Rot2(cs)
  ELSE
    LET normal == GCross(f, t) IN
    IF normal = GZeroV(3)
      THEN \* axis_rotation_matrix(perpendicular_vector(from), 0 or pi): Rodrigues with n = r / |r| and sin = 0 is
           \* c I + (1 - c) r r^T / |r|^2, rational even when |r| is not
           LET r == PerpRaw(f)
               cc == IF QLt(QZero, GDot(f, t)) THEN QOne ELSE QNeg(QOne)
           IN  MAdd(MScale(cc, MIdent(3)), MScale(QDiv(QSubL(QOne, cc), GNorm2(r)), OuterMat(r)))
      ELSE \* normal /= |normal|; binormal = normal x from; angle = sign(<binormal, to>) * arccos(<from, to>);
           \* Rodrigues with n = normal / |normal|, |normal|^2 = 1 - c^2:
           \*   c I + (1 - c) n n^T + sin [n]x  =  c I + w w^T / (1 + c) + sg [w]x     (w = the unnormalised normal)
           LET cc == GDot(f, t)
               sg == QSign(GDot(GCross(normal, f), t))
           IN  MAdd(MAdd(MScale(cc, MIdent(3)), MScale(QInv(QAddL(QOne, cc)), OuterMat(normal))),
                    MScale(sg, CrossMat(normal)))

(* -------------------------- transform_system ---------------------------- *)
TSysImpl(pv, pd, others, mat) ==
  IF mat # NONE THEN <<MatVec(mat, pv)>> \o MapOthers(mat, others)
  ELSE \* dilation = |pv| / |pd|; allclose(pv, dilation * pd) -> identity, else rotation_matrix_from_to(pd, pv)
       LET dil == QDiv(QSqrt(GNorm2(pv)), QSqrt(GNorm2(pd)))
           R == IF pv = GScale(dil, pd) THEN MIdent(Len(pv)) ELSE FromToImpl(pd, pv)
       IN  <<pv>> \o MapOthers(R, others)

(* -------------------------- is_inside_bounds ---------------------------- *)
\* the points a call denotes: "zip" = the points as listed, "mesh" = one coordinate list per axis broadcast against each other
RECURSIVE MeshPts(_)
MeshPts(ax) == IF Len(ax) = 1 THEN [i \in 1..Len(ax[1]) |-> <<ax[1][i]>>]
               ELSE LET rest == MeshPts(Tail(ax))  h == Head(ax)
                    IN  [k \in 1..(Len(h) * Len(rest)) |-> <<h[(k - 1) \div Len(rest) + 1]>> \o rest[((k - 1) % Len(rest)) + 1]]
InsidePts(mode, pts) == IF mode = "zip" THEN pts ELSE MeshPts(pts)
\* `value in params` for a single point, else contains_all of the flattened broadcast values
InsideImpl(mode, pts, lo, hi) ==
  IF mode = "zip" /\ Len(pts) = 1 /\ InBox(pts[1], lo, hi) THEN TRUE
  ELSE LET ps == InsidePts(mode, pts) IN
       \A a \in 1..Len(lo) : \A k \in 1..Len(ps) : QLe(lo[a], ps[k][a]) /\ QLe(ps[k][a], hi[a])

(* --------------------------- ellipsoid_phantom -------------------------- *)
\* floor(x - sqrt(r2)) and ceil(x + sqrt(r2)) for rationals x, r2 >= 0 without leaving the rationals
RECURSIVE FloorSubFrom(_, _, _)
FloorSubFrom(x, r2, m) == IF QLe(QI(m), x) /\ QLe(r2, QSq(QSubL(x, QI(m)))) THEN m ELSE FloorSubFrom(x, r2, m - 1)
FloorSub(x, r2) == FloorSubFrom(x, r2, QFloor(x))
RECURSIVE CeilAddFrom(_, _, _)
CeilAddFrom(x, r2, m) == IF QLe(x, QI(m)) /\ QLe(r2, QSq(QSubL(QI(m), x))) THEN m ELSE CeilAddFrom(x, r2, m + 1)
CeilAdd(x, r2) == CeilAddFrom(x, r2, QFloor(x))
AbsMat(A) == [i \in 1..Len(A) |-> [j \in 1..Len(A[i]) |-> QAbs(A[i][j])]]
\* _getshapes_2d / _3d: per axis the half-open index range [lo, hi) that is visited for the ellipse
\*   mat (the code's name) = transpose of the rotation; max_radius^2 = |mat| . (a^2, b^2[, c^2]) for a rotated ellipse,
\*   (a^2, b^2[, c^2]) otherwise; center = (c + 1) / 2; index_mean = shape * center; index_radius = max_radius / 2 * shape
EllRange(shape, e) ==
  LET dim == Len(shape)
      rotated == \E i \in 1..Len(e.rot) : e.rot[i] # CsZero
      mat == MTranspose(EllRot(e))
      use == IF Fixed("b") THEN MTranspose(mat) ELSE mat
      sq == [i \in 1..dim |-> QSq(e.ax[i])]
      mr2 == IF rotated THEN [i \in 1..dim |-> GDot(AbsMat(use)[i], sq)] ELSE sq
  IN  [a \in 1..dim |->
         LET mean == QMul(QI(shape[a]), QHalf(QAddL(e.c[a], QOne)))
             r2 == QMul(mr2[a], Q(shape[a] * shape[a], 4))
             lo == Max2(FloorSub(mean, r2), 0)
             hi == CeilAdd(mean, r2)
         IN  \* Python slice(lo, hi) on an axis of length n
             [lo |-> lo, hi |-> IF hi < 0 THEN Max2(shape[a] + hi, 0) ELSE Min2(hi, shape[a])]]
RECURSIVE EllImplSum(_, _, _, _, _, _)
EllImplSum(shape, ells, Rts, mi, t, i) ==
  IF i > Len(ells) THEN QZero
  ELSE LET rg == EllRange(shape, ells[i])
           visited == \A a \in 1..Len(shape) : rg[a].lo <= mi[a] /\ mi[a] < rg[a].hi
           cl == EllClass(EllQuad(ells[i], Rts[i], t))
           rest == EllImplSum(shape, ells, Rts, mi, t, i + 1)
       IN  IF visited /\ cl = "in" THEN QAddL(ells[i].val, rest) ELSE rest
EllImplFull(shape, ells) ==
  LET Rts == [i \in 1..Len(ells) |-> MTranspose(EllRot(ells[i]))] \o <<>>
  IN  [k \in 1..Prod(shape) |->
         LET mi == Unravel(k - 1, shape)
             t  == Tup(Len(shape), LAMBDA a : NormCoord(shape[a], mi[a]))
         IN  EllImplSum(shape, ells, Rts, mi, t, 1)] \o <<>>
\* min_pt / max_pt on cell boundaries i0 / i1: snapped_min = that boundary (or space.min_pt), snapped_max = that boundary (or
\* space.max_pt); tmp_space covers the cells [lo, hi); the phantom of tmp_space is placed at offset lo by resize_array
EllImpl(shape, ells, i0, i1) ==
  IF i0 = NONE /\ i1 = NONE THEN EllImplFull(shape, ells)
  ELSE IF Fixed("s") /\ (i0 = NONE \/ i1 = NONE) THEN
    LET sft == IF i0 # NONE THEN i0 ELSE [a \in 1..Len(shape) |-> i1[a] - shape[a]]
        ph  == EllImplFull(shape, ells)
    IN  [k \in 1..Prod(shape) |->
           LET mi == Unravel(k - 1, shape)  src == [a \in 1..Len(shape) |-> mi[a] - sft[a]] IN
           IF \A a \in 1..Len(shape) : 0 <= src[a] /\ src[a] < shape[a] THEN ph[Ravel(src, shape) + 1] ELSE QZero]
  ELSE
    LET lo == IF i0 = NONE THEN [a \in 1..Len(shape) |-> 0] ELSE i0
        hi == IF i1 = NONE THEN shape ELSE i1
        sub == [a \in 1..Len(shape) |-> hi[a] - lo[a]]
        ph == EllImplFull(sub, ells)
    IN  [k \in 1..Prod(shape) |->
           LET mi == Unravel(k - 1, shape) IN
           IF \A a \in 1..Len(shape) : lo[a] <= mi[a] /\ mi[a] < hi[a]
             THEN ph[Ravel([a \in 1..Len(shape) |-> mi[a] - lo[a]], sub) + 1] ELSE QZero]
=============================================================================

------------------------------ MODULE GeomSetImpl ------------------------------
(***************************************************************************)
(* Layer C (extension EXT/geomsets): the decision structures of            *)
(*   IntervalProd.contains_set / approx_contains / dist / contains_all /   *)
(*   approx_equals / measure / __mul__ / __truediv__ / __sub__             *)
(*   (odl/set/domain.py),                                                  *)
(*   RectGrid.is_subgrid / __getitem__ (+ normalized_index_expression),    *)
(*   uniform_grid_fromintv (odl/discr/grid.py)                             *)
(* transcribed branch by branch AS WRITTEN, to be checked by TLC against   *)
(* the documented semantics of layer A (GeomSetSem) on bounded instances.  *)
(*                                                                         *)
(* The transcription mirrors the current code including its open defects;  *)
(* each defect has a switch (constant Fixed, a set of tags) that replaces  *)
(* the defective branch by the proposed repair:                            *)
(*   "contains_all-atol"   array branch of contains_all ignores atol       *)
(*   "approx_equals-ndim"  np.allclose broadcasts boxes of different ndim  *)
(*   "is_subgrid-rtol"     np.isclose without rtol=0 in the array branch   *)
(*   "is_subgrid-ndim"     zip() truncates a higher-dimensional other      *)
(*   "is_subgrid-shortcut" three-point test of the uniform branch used     *)
(*                         with atol > 0                                   *)
(* With all switches on, C must refine A everywhere; with the switches off *)
(* TLC has to find the counter-examples (that run is expected to fail).    *)
(***************************************************************************)
EXTENDS GeomSetSem

CONSTANT Fixed
Ok(v) == Res("ok", v)                   \* an intermediate value ; RErr: the code path ends in an exception

(* ---------------- IntervalProd.dist / approx_contains / contains_set ---------------- *)
\* dist(point, exponent=inf): indices above max_pt, indices below min_pt, norm of the concatenated differences
DistInfImpl(b, pt) ==
  LET larger  == {a \in 1..Len(b) : QLt(b[a][2], pt[a])}
      smaller == {a \in 1..Len(b) : QLt(pt[a], b[a][1])}
      diffs   == {QSub(pt[a], b[a][2]) : a \in larger} \cup {QSub(b[a][1], pt[a]) : a \in smaller}
  IN  IF larger = {} /\ smaller = {} THEN QZero
      ELSE CHOOSE m \in diffs : \A d \in diffs : QLe(d, m)
ApproxContainsImpl(b, pt, t) ==
  IF Len(pt) = 0 THEN TRUE                          \* point.size == 0
  ELSE IF Len(pt) # Len(b) THEN FALSE               \* point.shape != (ndim,)
  ELSE QLe(DistInfImpl(b, pt), t)
\* contains_set: approx_contains(other.min(), atol) and approx_contains(other.max(), atol)
ContainsSetImpl(b, c, t) == ApproxContainsImpl(b, BMin(c), t) /\ ApproxContainsImpl(b, BMax(c), t)

(* ---------------- IntervalProd.contains_all ---------------- *)
\* operand: [sp |-> "grid" | "meshgrid" | "array", vecs (grid / meshgrid), pts (array: list of points)]
ContainsAllImpl(b, o, t) ==
  IF o.sp \in {"grid", "meshgrid"}
    THEN \* `hasattr(other, 'meshgrid')` -> recursion with the meshgrid -> per-axis min / max against min_pt - atol, max_pt + atol
         \A a \in 1..Len(b) : /\ QLe(QSub(b[a][1], t), QMinSeq(o.vecs[a]))
                              /\ QLe(QMaxSeq(o.vecs[a]), QAdd(b[a][2], t))
    ELSE \* array branch: np.min / np.max per axis compared with min_pt / max_pt - WITHOUT the tolerance
         LET tt == IF "contains_all-atol" \in Fixed THEN t ELSE QZero
         IN  \A a \in 1..Len(b) : /\ QLe(QSub(b[a][1], tt), QMinSeq([r \in 1..Len(o.pts) |-> o.pts[r][a]]))
                                  /\ QLe(QMaxSeq([r \in 1..Len(o.pts) |-> o.pts[r][a]]), QAdd(b[a][2], tt))
ContainsAllRef(b, o, t) ==
  BContainsAll(b, IF o.sp = "array" THEN o.pts ELSE PointsOf(o.vecs, "C"), t)

(* ---------------- IntervalProd.approx_equals ---------------- *)
\* np.allclose(self.min_pt, other.min_pt, atol, rtol=0) and the same for max_pt: arrays of different lengths are
\* BROADCAST (length 1 or 0 against anything) or raise
TF(x) == IF x THEN "T" ELSE "F"
AllCloseImpl(x, y, t) ==
  IF Len(x) = Len(y) THEN TF(\A a \in 1..Len(x) : QLe(QDist(x[a], y[a]), t))
  ELSE IF Len(x) = 1 THEN TF(\A a \in 1..Len(y) : QLe(QDist(x[1], y[a]), t))
  ELSE IF Len(y) = 1 THEN TF(\A a \in 1..Len(x) : QLe(QDist(x[a], y[1]), t))
  ELSE "raise"
ApproxEqualsImpl(b, c, t) ==
  IF "approx_equals-ndim" \in Fixed /\ Len(b) # Len(c) THEN RBool(FALSE)
  ELSE LET lo == AllCloseImpl(BMin(b), BMin(c), t)
       IN  IF lo = "raise" THEN RErr ELSE IF lo = "F" THEN RBool(FALSE)
           ELSE LET hi == AllCloseImpl(BMax(b), BMax(c), t) IN IF hi = "raise" THEN RErr ELSE RBool(hi = "T")

(* ---------------- IntervalProd.measure ---------------- *)
RECURSIVE MeasureImpl(_, _)
MeasureImpl(b, nd) ==
  LET t == TrueNdim(b)
  IN  IF t = 0 THEN QZero
      ELSE IF nd = NONE THEN MeasureImpl(b, t)
      ELSE IF nd < t THEN Inf
      ELSE IF nd > t THEN QZero
      ELSE QProdSeq(Keep(BExtent(b), NonDeg(b), 1))

(* ---------------- interval arithmetic ---------------- *)
Min4(s) == QMinSeq(s)
Max4(s) == QMaxSeq(s)
MulImpl(b, c) ==            \* comp_mat with the four products, np.min / np.max over axis 1
  [a \in 1..Len(b) |->
     LET p == <<QMul(b[a][1], c[a][1]), QMul(b[a][1], c[a][2]), QMul(b[a][2], c[a][1]), QMul(b[a][2], c[a][2])>>
     IN  <<Min4(p), Max4(p)>>]
MulSImpl(b, s) ==           \* np.minimum(vec1, vec2), np.maximum(vec1, vec2)
  [a \in 1..Len(b) |-> <<QMin(QMul(b[a][1], s), QMul(b[a][2], s)), QMax(QMul(b[a][1], s), QMul(b[a][2], s))>>]
NegImpl(b) == [a \in 1..Len(b) |-> <<QNeg(b[a][2]), QNeg(b[a][1])>>]
AddImpl(b, c) == [a \in 1..Len(b) |-> <<QAdd(b[a][1], c[a][1]), QAdd(b[a][2], c[a][2])>>]
SubImpl(b, c) == AddImpl(b, NegImpl(c))                     \* self + (-other)
\* __rdiv__(scalar): raises if some axis contains 0, else min / max of other / min_pt, other / max_pt
RDivImpl(s, b) ==
  IF \E a \in 1..Len(b) : QLe(b[a][1], QZero) /\ QLe(QZero, b[a][2]) THEN RErr
  ELSE Box([a \in 1..Len(b) |-> <<QMin(QDiv(s, b[a][1]), QDiv(s, b[a][2])), QMax(QDiv(s, b[a][1]), QDiv(s, b[a][2]))>>])
DivImpl(b, c) ==            \* self * (1.0 / other)
  LET r == RDivImpl(QOne, c) IN IF IsErr(r) THEN RErr ELSE Box(MulImpl(b, r.v))

(* ---------------- RectGrid.is_subgrid ---------------- *)
GApproxContainsImpl(h, pt, t) ==        \* other.shape == (ndim,) and all(any(isclose(vector, coord, atol, rtol=0)))
  Len(pt) = Len(h) /\ \A a \in 1..Len(h) : \E j \in 1..Len(h[a]) : QLe(QDist(h[a][j], pt[a]), t)
Rtol == <<1, 100000>>
IsSubgridImpl(g, h, t) ==
  IF "is_subgrid-ndim" \in Fixed /\ Len(g) # Len(h) THEN RBool(FALSE)
  ELSE IF Len(h) < Len(g) THEN RErr                           \* other.shape[i] for i in range(self.ndim): IndexError
  ELSE RBool(
       IF ~(\A a \in 1..Len(g) : /\ Len(g[a]) <= Len(h[a])
                                 /\ QLe(QSub(h[a][1], t), g[a][1])
                                 /\ QLe(g[a][Len(g[a])], QAdd(h[a][Len(h[a])], t))) THEN FALSE
  ELSE IF (\A a \in 1..Len(g) : UniformVec(g[a])) /\ (\A a \in 1..Len(h) : UniformVec(h[a]))
            /\ ~("is_subgrid-shortcut" \in Fixed /\ ~QIsZero(t))
    THEN \* "it suffices to show that min_pt, max_pt and g[1,...,1] are contained in the other grid"
         /\ GApproxContainsImpl(h, GMin(g), t) /\ GApproxContainsImpl(h, GMax(g), t)
         /\ GApproxContainsImpl(h, [a \in 1..Len(g) |-> IF Len(g[a]) >= 3 THEN g[a][2] ELSE g[a][1]], t)
  ELSE \* array version: for vec_o, vec_s in zip(...): all(any(isclose(vec_s_mg, vec_o_mg, atol=atol), axis=0))
       LET rt == IF "is_subgrid-rtol" \in Fixed THEN QZero ELSE Rtol
       IN  \A a \in 1..Min2(Len(g), Len(h)) : \A i \in 1..Len(g[a]) : \E j \in 1..Len(h[a]) :
              QLe(QDist(g[a][i], h[a][j]), QAdd(t, QMul(rt, QAbs(h[a][j])))))

(* ---------------- uniform_grid_fromintv ---------------- *)
\* the four (bdry_l, bdry_r) cases, then np.linspace(gmin, gmax, num, endpoint=True); RectGrid rejects duplicates
UGridAxisImpl(ax, n, L, R) ==
  LET a == ax[1]  b == ax[2]
      gmin == IF L = 1 THEN a
              ELSE IF R = 1 THEN QAdd(a, QDiv(QSub(b, a), QI(2 * n - 1)))
              ELSE QAdd(a, QDiv(QSub(b, a), QI(2 * n)))
      gmax == IF R = 1 THEN b
              ELSE IF L = 1 THEN QSub(b, QDiv(QSub(b, a), QI(2 * n - 1)))
              ELSE QSub(b, QDiv(QSub(b, a), QI(2 * n)))
  IN  IF n = 1 THEN <<gmin>>
      ELSE [i \in 1..n |-> QAdd(gmin, QMul(Q(i - 1, n - 1), QSub(gmax, gmin)))]
UGridImpl(b, shp, nb) ==
  LET vecs == [a \in 1..Len(b) |-> UGridAxisImpl(b[a], shp[a], nb[a][1], nb[a][2])]
  IN  IF \E a \in 1..Len(b) : ~StrictInc(vecs[a]) THEN RErr ELSE Grid(vecs)

(* ---------------- RectGrid.__getitem__ with normalized_index_expression(int_to_slice=False) ---------------- *)
IsScalarItem(it) == it.k = "int"
NormIdxImpl(items0, shp) ==
  LET ndim == Len(shp)
      items1 == IF Len(items0) < ndim /\ NumEll(items0) = 0 THEN Append(items0, IEll) ELSE items0
  IN  IF NumEll(items1) > 1 THEN RErr                                             \* cannot use more than one Ellipsis
      ELSE LET items == IF NumEll(items1) = 0 THEN items1
                        ELSE LET e == CHOOSE t \in 1..Len(items1) : items1[t].k = "ell"
                                 extra == ndim - Len(items1) + 1
                             IN  SubSeq(items1, 1, e - 1) \o [t \in 1..Max2(extra, 0) |-> IFull]
                                 \o SubSeq(items1, e + 1, Len(items1))
               m == Min2(Len(items), ndim)                                         \* zip(enumerate(indices), shape)
           IN  IF \E a \in 1..m : IsScalarItem(items[a]) /\ (IF items[a].i < 0 THEN items[a].i + shp[a] ELSE items[a].i) >= shp[a]
                 THEN RErr                                                         \* IndexError: out of bounds
               ELSE IF \E a \in 1..m : items[a].k = "slice" /\
                         ((items[a].a = items[a].b /\ items[a].a # NONE) \/ items[a].a = shp[a])
                 THEN RErr                                                         \* slices with empty axes
               ELSE IF \E a \in 1..Len(items) : items[a].k = "none" THEN RErr      \* creating new axes is not supported
               ELSE IF Len(items) > ndim THEN RErr                                 \* too many indices
               ELSE Ok(items)
\* numpy indexing of one coordinate vector; Raise for an out-of-range integer
VecIndexImpl(v, it) ==
  IF it.k = "int" THEN (IF it.i >= -Len(v) /\ it.i < Len(v) THEN Ok(<<v[NormInt(it.i, Len(v)) + 1]>>) ELSE RErr)
  ELSE IF SlStep(it.s) >= 1 THEN Ok(Pick(v, SlIdx(it, Len(v)))) ELSE RErr
GetItemImpl(g, items0) ==
  LET nr == NormIdxImpl(items0, GShape(g))
  IN  IF IsErr(nr) THEN RErr
      ELSE LET nrm == nr.v
               sel == [a \in 1..Len(g) |-> VecIndexImpl(g[a], nrm[a])]
           IN  IF \E a \in 1..Len(g) : IsErr(sel[a]) THEN RErr
               ELSE IF \A a \in 1..Len(g) : nrm[a].k = "int" THEN RQs([a \in 1..Len(g) |-> sel[a].v[1]])
               ELSE IF \E a \in 1..Len(g) : Len(sel[a].v) = 0 THEN RErr            \* RectGrid: vector has zero length
               ELSE Grid([a \in 1..Len(g) |-> sel[a].v])
=============================================================================

----------------------------- MODULE SmoothImpl -----------------------------
(***************************************************************************)
(* Layer C (extension stage "smooth"): the code of                         *)
(*    odl/solvers/smooth/newton.py   (_bfgs_direction, _broydens_direction, *)
(*                                    newtons_method, bfgs_method,          *)
(*                                    broydens_method)                      *)
(*    odl/solvers/smooth/gradient.py (steepest_descent, adam)               *)
(*    odl/solvers/smooth/nonlinear_cg.py (conjugate_gradient_nonlinear)     *)
(*    odl/solvers/util/steplen.py    (BacktrackingLineSearch.__call__,      *)
(*                                    LineSearchFromIterNum.__call__)       *)
(* AS WRITTEN, statement by statement, in exact arithmetic: the L-BFGS     *)
(* two-loop recursion over the stored lists, the `num_store` truncation    *)
(* with Python's slice semantics, the curvature safeguard and list reset,  *)
(* the Broyden recursions over lists of rank-one factors, the backtracking *)
(* loop with its counters, the loop nest of the nonlinear CG with its      *)
(* un-reported first step, the `tol` tests of every solver.                *)
(*                                                                         *)
(* `Quirks` names the places where the code as pinned departs from its     *)
(* documentation (layer A); a quirk that is not in the set is transcribed  *)
(* in its repaired form (see the proposals under proposals/EXT):            *)
(*   "adam-bias"   step = lr sqrt(1-b2)/(1-b1): the powers b^t are missing *)
(*   "ncg-first"   first step of every cycle is neither counted against    *)
(*                 maxiter nor reported to the callback                    *)
(*   "bt-alpha"    without estimate_step the search starts from 1.0, not   *)
(*                 from the `alpha` given to the constructor               *)
(*   "store0"      ss[-num_store:] with num_store = 0 keeps everything     *)
(* TLC checks C against A on the catalogue (MC_SmoothImpl).                *)
(*                                                                         *)
(* A call is folded into a record h:                                        *)
(*   x     the caller's element (updated in place)                         *)
(*   lo    state of the caller's step-length object                        *)
(*   lsl   the calls of the step-length rule  [x, d, dd, a]                *)
(*   cb    the iterates handed to the callback                             *)
(*   ret   the function has returned;  err  an exception escaped           *)
(*   rob   every quantity compared with tol was 0 or >= 4 tol (the          *)
(*         floating-point run then takes the same branches)                *)
(***************************************************************************)
EXTENDS SmoothSem

CONSTANTS TolInv,     \* 1 / tol, the reciprocal of the tol argument (a positive integer)
          Quirks      \* subset of {"adam-bias", "ncg-first", "bt-alpha", "store0"}

Has(qk) == qk \in Quirks
\* comparisons with tol = 1 / TolInv without leaving 32 bits:  |n/d| < 1/T  <=>  |n| T < d  <=>  |n| <= (d-1) div T
Small(v) == Abs(v[1]) <= (v[2] - 1) \div TolInv                       \* |v| < tol
SmallEq(v) == Abs(v[1]) <= v[2] \div TolInv                           \* |v| <= tol
NormSmall(P, g) == W(WNorm2(P, g), LAMBDA nn_ : nn_[1] <= ((nn_[2] - 1) \div TolInv) \div TolInv)     \* g.norm() < tol
Robust(v) == SIsZero(v) \/ Abs(v[1]) >= (4 * v[2] + TolInv - 1) \div TolInv             \* v = 0 or |v| >= 4 tol
NormRobust(P, g) == W(WNorm2(P, g), LAMBDA nn_ : SIsZero(nn_) \/ ~(nn_[1] <= ((nn_[2] - 1) \div TolInv) \div TolInv))

(* ------------------------- steplen.py ----------------------------------- *)
\* BacktrackingLineSearch.__call__ : loop state [alpha, num_iter]
RECURSIVE BTLoop(_, _, _, _, _, _, _, _)
BTLoop(P, ls, x, d, dd, fx, alpha, num) ==
  IF num > ls.maxit THEN [status |-> "raise", a |-> alpha, num |-> num]            \* raise ValueError
  ELSE IF SLe(QVal(P, RAdd(x, RScal(alpha, d))),
              SSub(fx, SAbs(SMul(alpha, SMul(dd, ls.disc)))))                      \* fval <= fx - |alpha dd discount|
         THEN [status |-> "ok", a |-> alpha, num |-> num]
  ELSE BTLoop(P, ls, x, d, dd, fx, SMul(alpha, ls.tau), num + 1)                   \* num_iter += 1 ; alpha *= tau
BTImpl(P, ls, lo, x, d, dd) ==
  IF SIsZero(dd) THEN [status |-> "nodescent", a |-> QZero, lo |-> [lo EXCEPT !.calls = lo.calls + 1]]
  ELSE W(IF ~ls.est THEN (IF Has("bt-alpha") THEN QOne ELSE ls.alpha0) ELSE lo.alpha, LAMBDA a0 :
       W(E(BTLoop(P, ls, x, d, dd, QVal(P, x), IF SPos(dd) THEN SNeg(a0) ELSE a0, 0)), LAMBDA r :
         IF r.status = "ok"
           THEN [status |-> "ok", a |-> r.a,
                 lo |-> [calls |-> lo.calls + 1, alpha |-> SAbs(r.a), total |-> lo.total + r.num]]
           ELSE [status |-> "raise", a |-> r.a, lo |-> [lo EXCEPT !.calls = lo.calls + 1]]))
\* any rule called by a solver:  [a, lo, err]
RuleImpl(P, ls, lo, x, d, dd) ==
  IF ls.k = "bt"
    THEN W(E(BTImpl(P, ls, lo, x, d, dd)), LAMBDA r : [a |-> r.a, lo |-> r.lo, err |-> r.status # "ok"])
    ELSE W(E(StepLen(P, ls, lo, x, d, dd)), LAMBDA r : [a |-> r.a, lo |-> r.lo, err |-> FALSE])
    \* ConstantLineSearch: self.constant ; LineSearchFromIterNum: func(iter_count), iter_count += 1 ;
    \* the user-defined exact rule is the harness's own object

H0(I, x, lo) == [x |-> x, lo |-> lo, lsl |-> <<>>, cb |-> <<>>, ret |-> FALSE, err |-> FALSE, rob |-> TRUE,
                 g |-> <<>>, ss |-> <<>>, ys |-> <<>>, s |-> <<>>, dxo |-> <<>>, m |-> <<>>, v |-> <<>>, t |-> 0]
Called(h, d, dd, r) == Append(h.lsl, [x |-> h.x, d |-> d, dd |-> dd, a |-> r.a])

(* ------------------------- newton.py: _bfgs_direction -------------------- *)
\* for i in reversed(range(len(s))): rhos[i] = 1 / y[i].inner(s[i]); alphas[i] = rhos[i] * s[i].inner(r);
\*                                    r.lincomb(1, r, -alphas[i], y[i])
RECURSIVE BFGSLoop1(_, _, _, _, _, _)
BFGSLoop1(P, ss, ys, i, r, al) ==
  IF i = 0 THEN [r |-> r, al |-> al]
  ELSE W(SMul(SInv(WInner(P, ys[i], ss[i])), WInner(P, ss[i], r)), LAMBDA a :
         BFGSLoop1(P, ss, ys, i - 1, E(RSub(r, RScal(a, ys[i]))), [al EXCEPT ![i] = a]))
\* for i in range(len(s)): beta = rhos[i] * y[i].inner(r); r.lincomb(1, r, alphas[i] - beta, s[i])
RECURSIVE BFGSLoop2(_, _, _, _, _, _)
BFGSLoop2(P, ss, ys, i, r, al) ==
  IF i > Len(ss) THEN r
  ELSE W(SMul(SInv(WInner(P, ys[i], ss[i])), WInner(P, ys[i], r)), LAMBDA be :
         BFGSLoop2(P, ss, ys, i + 1, E(RAdd(r, RScal(SSub(al[i], be), ss[i]))), al))
BFGSDirImpl(I, ss, ys, v) ==
  W(E(BFGSLoop1(I.P, ss, ys, Len(ss), v, [i \in 1..Len(ss) |-> QZero])), LAMBDA l1 :
    BFGSLoop2(I.P, ss, ys, 1, E(H0Apply(I, l1.r)), l1.al))             \* if hessinv_estimate is not None: r = hessinv_estimate(r)

\* Python's  lst[-m:]
PySliceLast(seq, m) ==
  IF m = 0 THEN (IF Has("store0") THEN seq ELSE <<>>)
  ELSE IF Len(seq) <= m THEN seq ELSE SubSeq(seq, Len(seq) - m + 1, Len(seq))

\* one pass through the loop body of bfgs_method
BFGSIter(I, h) ==
  W(E(RNeg(BFGSDirImpl(I, h.ss, h.ys, h.g))), LAMBDA sd :              \* search_dir = -_bfgs_direction(ss, ys, grad_x, ..)
  W(WInner(I.P, sd, h.g), LAMBDA dd :                                  \* dir_deriv = search_dir.inner(grad_x)
    IF SIsZero(dd) THEN [h EXCEPT !.ret = TRUE]                        \* if np.abs(dir_deriv) == 0: return
    ELSE W(E(RuleImpl(I.P, I.ls, h.lo, h.x, sd, dd)), LAMBDA r :       \* step = line_search(x, search_dir, dir_deriv)
         IF r.err THEN [h EXCEPT !.err = TRUE, !.ret = TRUE, !.lo = r.lo]
         ELSE
         W(E(RScal(r.a, sd)), LAMBDA upd :                             \* x_update = search_dir ; x_update *= step
         W(E(RAdd(h.x, upd)), LAMBDA x1 :                              \* x += x_update
         W(E(QGrad(I.P, x1)), LAMBDA g1 :                              \* grad_x, grad_diff = grad(x), grad_x
         W(E(RSub(g1, h.g)), LAMBDA gd :                               \* grad_diff.lincomb(-1, grad_diff, 1, grad_x)
         W(WInner(I.P, gd, upd), LAMBDA yis :                          \* y_inner_s = grad_diff.inner(x_update)
         W([h EXCEPT !.x = x1, !.g = g1, !.lo = r.lo, !.lsl = Called(h, sd, dd, r),
                     !.rob = h.rob /\ Robust(yis)], LAMBDA h1 :
           IF Small(yis)                                               \* if np.abs(y_inner_s) < tol:
             THEN IF NormSmall(I.P, g1)                                \*     if grad_x.norm() < tol: return
                    THEN [h1 EXCEPT !.ret = TRUE]
                    ELSE [h1 EXCEPT !.ss = <<>>, !.ys = <<>>,          \*     else: ys = [] ; ss = [] ; continue
                                    !.rob = h1.rob /\ NormRobust(I.P, g1)]
           ELSE [h1 EXCEPT !.ys = IF I.store = -1 THEN Append(h.ys, gd) ELSE PySliceLast(Append(h.ys, gd), I.store),
                           !.ss = IF I.store = -1 THEN Append(h.ss, upd) ELSE PySliceLast(Append(h.ss, upd), I.store),
                           !.cb = Append(h.cb, x1)])))))))))           \* callback(x)

(* ------------------------- newton.py: _broydens_direction ---------------- *)
\* r = hessinv_estimate(x) ; for i in range(len(s)):
\*     'first':  r.lincomb(1, r, y[i].inner(r), s[i])      'second':  r.lincomb(1, r, y[i].inner(x), s[i])
RECURSIVE BroydenLoop(_, _, _, _, _, _)
BroydenLoop(I, ss, ys, i, r, x) ==
  IF i > Len(ss) THEN r
  ELSE BroydenLoop(I, ss, ys, i + 1,
                   E(RAdd(r, RScal(WInner(I.P, ys[i], IF I.impl = "first" THEN r ELSE x), ss[i]))), x)
BroydenDirImpl(I, ss, ys, x) == BroydenLoop(I, ss, ys, 1, E(H0Apply(I, x)), x)

BroydenIter(I, h) ==
  W(E(RNeg(BroydenDirImpl(I, h.ss, h.ys, h.g))), LAMBDA sd :
  W(WInner(I.P, sd, h.g), LAMBDA dd :
    IF SIsZero(dd) THEN [h EXCEPT !.ret = TRUE]
    ELSE W(E(RuleImpl(I.P, I.ls, h.lo, h.x, sd, dd)), LAMBDA r :
         IF r.err THEN [h EXCEPT !.err = TRUE, !.ret = TRUE, !.lo = r.lo]
         ELSE
         W(E(RScal(r.a, sd)), LAMBDA upd :                             \* x_update = step * search_dir
         W(E(RAdd(h.x, upd)), LAMBDA x1 :
         W(E(QGrad(I.P, x1)), LAMBDA g1 :
         W(E(RSub(g1, h.g)), LAMBDA dg :                               \* delta_grad = grad_x - grad_x_old
         W(E(BroydenDirImpl(I, h.ss, h.ys, dg)), LAMBDA v :            \* v = _broydens_direction(ss, ys, delta_grad, ..)
         W(IF I.impl = "first" THEN WInner(I.P, upd, v) ELSE WInner(I.P, dg, dg), LAMBDA dv :   \* divisor
         W([h EXCEPT !.x = x1, !.g = g1, !.lo = r.lo, !.lsl = Called(h, sd, dd, r),
                     !.rob = h.rob /\ Robust(dv)], LAMBDA h1 :
           IF Small(dv)
             THEN IF NormSmall(I.P, g1) THEN [h1 EXCEPT !.ret = TRUE]
                  ELSE [h1 EXCEPT !.ss = <<>>, !.ys = <<>>, !.rob = h1.rob /\ NormRobust(I.P, g1)]
           ELSE [h1 EXCEPT !.ss = Append(h.ss, E(RScal(SInv(dv), RSub(upd, v)))),      \* u = (x_update - v) / divisor
                           !.ys = Append(h.ys, IF I.impl = "first" THEN upd ELSE dg),
                           !.cb = Append(h.cb, x1)]))))))))))

(* ------------------------- newton.py: newtons_method --------------------- *)
\* the Newton system is solved by hessian.inverse if the operator has one, else by cg_iter CG steps from 0
NewtonIter(I, h) ==
  W(E(QGrad(I.P, h.x)), LAMBDA g :                                     \* deriv_in_point = grad(x)
  W(E(NewtonDir(I, h.x)), LAMBDA sd :
  W(WInner(I.P, sd, g), LAMBDA dd :                                    \* dir_deriv = search_direction.inner(deriv_in_point)
    IF SmallEq(dd) THEN [h EXCEPT !.ret = TRUE, !.rob = h.rob /\ Robust(dd)]       \* if np.abs(dir_deriv) <= tol: return
    ELSE W(E(RuleImpl(I.P, I.ls, h.lo, h.x, sd, dd)), LAMBDA r :
         IF r.err THEN [h EXCEPT !.err = TRUE, !.ret = TRUE, !.lo = r.lo]
         ELSE W(E(RAdd(h.x, RScal(r.a, sd))), LAMBDA x1 :              \* x += step_length * search_direction
              [h EXCEPT !.x = x1, !.lo = r.lo, !.lsl = Called(h, sd, dd, r), !.cb = Append(h.cb, x1),
                        !.rob = h.rob /\ Robust(dd)])))))

(* ------------------------- gradient.py ----------------------------------- *)
SDIter(I, h) ==
  W(E(QGrad(I.P, h.x)), LAMBDA g :                                     \* grad(x, out=grad_x)
  W(SNeg(WNorm2(I.P, g)), LAMBDA dd :                                  \* dir_derivative = -grad_x.norm() ** 2
    IF Small(dd) THEN [h EXCEPT !.ret = TRUE, !.rob = h.rob /\ Robust(dd)]         \* if np.abs(dir_derivative) < tol: return
    ELSE W(E(RuleImpl(I.P, I.ls, h.lo, h.x, E(RNeg(g)), dd)), LAMBDA r :          \* step = line_search(x, -grad_x, ..)
         IF r.err THEN [h EXCEPT !.err = TRUE, !.ret = TRUE, !.lo = r.lo]
         ELSE W(E(BoxProj(I.box, RSub(h.x, RScal(r.a, g)))), LAMBDA x1 :          \* x.lincomb(1, x, -step, grad_x) ; projection(x)
              [h EXCEPT !.x = x1, !.lo = r.lo, !.lsl = Called(h, RNeg(g), dd, r), !.cb = Append(h.cb, x1),
                        !.rob = h.rob /\ Robust(dd)]))))

\* adam: m, v start at zero; only b2 = 0 / constant gradients keep sqrt(v) rational (as in layer A); eps -> 0
AdamIter(I, h) ==
  W(E(QGrad(I.P, h.x)), LAMBDA g :
    IF NormSmall(I.P, g) THEN [h EXCEPT !.ret = TRUE]                  \* if grad_x.norm() < tol: return
    ELSE
    W(E(RLin(I.b1, h.m, SSub(QOne, I.b1), g)), LAMBDA m :              \* m.lincomb(beta1, m, 1 - beta1, grad_x)
    W(E(RLin(I.b2, h.v, SSub(QOne, I.b2), RMul(g, g))), LAMBDA v :     \* v.lincomb(beta2, v, 1 - beta2, grad_x ** 2)
    W(IF Has("adam-bias") THEN 1 ELSE h.t + 1, LAMBDA pw :             \* step = lr * sqrt(1 - beta2) / (1 - beta1)
    \* x.lincomb(1, x, -step, m / (np.sqrt(v) + eps)) : step * m / sqrt(v) = lr / (1 - b1^pw) * m / sqrt(v / (1 - b2^pw))
    W(E(RScal(SInv(SSub(QOne, TauPow(I.b2, pw))), v)), LAMBDA vr :
      IF ~RSqrtOK(vr)
        THEN [h EXCEPT !.err = TRUE, !.ret = TRUE]                     \* irrational: outside the model
        ELSE W(SDiv(I.lr, SSub(QOne, TauPow(I.b1, pw))), LAMBDA step :
             W(E(RSub(h.x, RScal(step, [i \in 1..Len(g) |-> SDiv(m[i], SSqrt(vr[i]))]))), LAMBDA x1 :
               [h EXCEPT !.x = x1, !.m = m, !.v = v, !.t = h.t + 1, !.cb = Append(h.cb, x1),
                         !.lsl = Append(h.lsl, [x |-> h.x, d |-> <<>>, dd |-> QZero, a |-> I.lr])])))))))

(* ------------------------- the for-loops --------------------------------- *)
IterImpl(I, h) ==
  CASE I.solver = "newton"  -> NewtonIter(I, h)
    [] I.solver = "bfgs"    -> BFGSIter(I, h)
    [] I.solver = "broyden" -> BroydenIter(I, h)
    [] I.solver = "sd"      -> SDIter(I, h)
    [] I.solver = "adam"    -> AdamIter(I, h)
RECURSIVE ForLoop(_, _, _)
ForLoop(I, h, i) == IF i = 0 \/ h.ret THEN h ELSE ForLoop(I, E(IterImpl(I, h)), i - 1)     \* for _ in range(maxiter):

(* ------------------------- nonlinear_cg.py ------------------------------- *)
\* inner loop body; h.s = search direction, h.dxo = -gradient of the previous pass
NCGInner(I, h) ==
  W(E(RNeg(QGrad(I.P, h.x))), LAMBDA dx :                              \* dx, dx_old = -f.gradient(x), dx
  W(E(RSub(dx, h.dxo)), LAMBDA df :
  W(CASE I.beta = "FR" -> SDiv(WNorm2(I.P, dx), WNorm2(I.P, h.dxo))
      [] I.beta = "PR" -> SDiv(WInner(I.P, dx, df), WNorm2(I.P, h.dxo))
      [] I.beta = "HS" -> SNeg(SDiv(WInner(I.P, dx, df), WInner(I.P, h.s, df)))
      [] I.beta = "DY" -> SNeg(SDiv(WNorm2(I.P, dx), WInner(I.P, h.s, df))), LAMBDA be0 :
  W(SMax(QZero, be0), LAMBDA be :                                      \* beta = max(0, beta)
  W(E(RAdd(dx, RScal(be, h.s))), LAMBDA s1 :                           \* s.lincomb(1, dx, beta, s)
  W(SNeg(WInner(I.P, dx, s1)), LAMBDA dd :                             \* dir_derivative = -dx.inner(s)
    IF SmallEq(dd) THEN [h EXCEPT !.ret = TRUE, !.rob = h.rob /\ Robust(dd)]       \* if abs(dir_derivative) <= tol: return
    ELSE W(E(RuleImpl(I.P, I.ls, h.lo, h.x, s1, dd)), LAMBDA r :
         IF r.err THEN [h EXCEPT !.err = TRUE, !.ret = TRUE, !.lo = r.lo]
         ELSE W(E(RAdd(h.x, RScal(r.a, s1))), LAMBDA x1 :              \* x.lincomb(1, x, a, s)
              [h EXCEPT !.x = x1, !.lo = r.lo, !.lsl = Called(h, s1, dd, r), !.cb = Append(h.cb, x1),
                        !.s = s1, !.dxo = dx, !.rob = h.rob /\ Robust(dd)]))))))))
RECURSIVE NCGFor(_, _, _)
NCGFor(I, h, i) == IF i = 0 \/ h.ret THEN h ELSE NCGFor(I, E(NCGInner(I, h)), i - 1)
\* first step of a cycle ("First iteration is done without beta"), then the inner loop
NCGCycle(I, h, inner) ==
  W(E(RNeg(QGrad(I.P, h.x))), LAMBDA dx :                              \* dx = -f.gradient(x)
  W(SNeg(WNorm2(I.P, dx)), LAMBDA dd :                                 \* dir_derivative = -dx.inner(dx)
    IF Small(dd) THEN [h EXCEPT !.ret = TRUE, !.rob = h.rob /\ Robust(dd)]         \* if abs(dir_derivative) < tol: return
    ELSE W(E(RuleImpl(I.P, I.ls, h.lo, h.x, dx, dd)), LAMBDA r :
         IF r.err THEN [h EXCEPT !.err = TRUE, !.ret = TRUE, !.lo = r.lo]
         ELSE W(E(RAdd(h.x, RScal(r.a, dx))), LAMBDA x1 :
              NCGFor(I, [h EXCEPT !.x = x1, !.lo = r.lo, !.lsl = Called(h, dx, dd, r), !.s = dx, !.dxo = dx,
                                  !.cb = IF Has("ncg-first") THEN h.cb ELSE Append(h.cb, x1),
                                  !.rob = h.rob /\ Robust(dd)],
                     inner)))))
RECURSIVE NCGOuter(_, _, _, _)
NCGOuter(I, h, cycles, inner) ==
  IF cycles = 0 \/ h.ret THEN h ELSE NCGOuter(I, E(NCGCycle(I, h, inner)), cycles - 1, inner)
\* for _ in range(nreset + 1): <first step> ; for _ in range(maxiter // (nreset + 1)): ...
NCGCall(I, h, maxiter, nreset) ==
  IF Has("ncg-first") THEN NCGOuter(I, h, nreset + 1, maxiter \div (nreset + 1))
  ELSE IF maxiter \div (nreset + 1) = 0 THEN h
  ELSE NCGOuter(I, h, nreset + 1, (maxiter \div (nreset + 1)) - 1)

(* ------------------------- one call of a solver --------------------------- *)
CallImpl(I, x, lo, maxiter) ==
  CASE I.solver = "ncg"     -> NCGCall(I, H0(I, x, lo), maxiter, 0)
    [] I.solver = "bfgs"    -> ForLoop(I, [H0(I, x, lo) EXCEPT !.g = QGrad(I.P, x)], maxiter)        \* grad_x = grad(x)
    [] I.solver = "broyden" -> ForLoop(I, [H0(I, x, lo) EXCEPT !.g = QGrad(I.P, x)], maxiter)
    [] I.solver = "adam"    -> ForLoop(I, [H0(I, x, lo) EXCEPT !.m = RZero(Len(x)), !.v = RZero(Len(x))], maxiter)
    [] OTHER -> ForLoop(I, H0(I, x, lo), maxiter)
\* two consecutive calls on the caller's x with the caller's rule object (boundary after `split` iterations)
TwoCalls(I, split) ==
  W(E(CallImpl(I, I.x0, LOInit(I.ls), split)), LAMBDA h1 :
    IF h1.err THEN h1
    ELSE W(E(CallImpl(I, h1.x, h1.lo, I.N - split)), LAMBDA h2 :
         [h2 EXCEPT !.lsl = h1.lsl \o h2.lsl, !.cb = h1.cb \o h2.cb, !.rob = h1.rob /\ h2.rob]))
RunImpl(I, split) == IF split <= 0 THEN CallImpl(I, I.x0, LOInit(I.ls), I.N) ELSE TwoCalls(I, split)
=============================================================================

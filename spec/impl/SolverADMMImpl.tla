--------------------------- MODULE SolverADMMImpl ---------------------------
(***************************************************************************)
(* Layer C: odl/solvers/nonsmooth/admm.py : admm_linearized, statement by  *)
(* statement.  Objects: the caller's x; z, u (persistent); tmp_ran (holds  *)
(* L x across iterations), tmp_dom (re-used temporaries).  Its reference   *)
(* is SolverSem!ADMMStep = admm_linearized_simple.                         *)
(***************************************************************************)
EXTENDS SolverStmt

\* code before the loop; `h` is the caller's heap (object x)
ADMMStart(I, h) ==
  LET L == L1of(I) IN
  [x |-> h.x, z |-> RZero(NRows(L)), u |-> RZero(NRows(L)),
   tmp_ran |-> MatVec(L, h.x),                  \* tmp_ran = L(x)
   tmp_dom |-> Garbage(NCols(L))]               \* tmp_dom = L.domain.element()

ADMMBody(I) == <<
  SIAdd("tmp_ran", "u"),                                              \* tmp_ran += u
  SISub("tmp_ran", "z"),                                              \* tmp_ran -= z
  SAdjoint(1, "tmp_ran", "tmp_dom"),                                  \* L.adjoint(tmp_ran, out=tmp_dom)
  SLin("x", QOne, "x", SNeg(SDiv(I.tau, S1of(I))), "tmp_dom"),        \* x.lincomb(1, x, -tau/sigma, tmp_dom)
  SProx("f", 1, FALSE, I.tau, "x", "x"),                              \* prox_tau_f(x, out=x)        (aliased)
  SApply(1, "x", "tmp_ran"),                                          \* L(x, out=tmp_ran)
  SLin("t1", QOne, "tmp_ran", QOne, "u"),                             \* tmp_ran + u                  (fresh)
  SProx("g", 1, FALSE, S1of(I), "t1", "z"),                           \* prox_sigma_g(.., out=z)
  SIAdd("u", "tmp_ran"),                                              \* u += tmp_ran
  SISub("u", "z"),                                                    \* u -= z
  SCallback("x") >>

ADMMPersist == {"x", "z", "u", "tmp_ran", "tmp_dom"}
ADMMApi == {"x"}                       \* z, u are not exposed: a second call starts from z = u = 0
ADMMAbs(I, h) == [x |-> h.x, z |-> h.z, u |-> h.u]
=============================================================================

---------------------------- MODULE SolverADUImpl ----------------------------
(***************************************************************************)
(* Layer C: odl/solvers/nonsmooth/alternating_dual_updates.py : adupdates  *)
(* (fixed order, callback_loop='outer'), statement by statement.  Objects: *)
(* the caller's x, one dual per block, and ONE temporary per distinct      *)
(* range space (tmp_rans is a dict keyed by the space, so two blocks with  *)
(* equal ranges share their temporary).  Reference: SolverSem!ADUStep =    *)
(* adupdates_simple.  tau = stepsize, sig[j] = inner_stepsizes[j].         *)
(***************************************************************************)
EXTENDS SolverStmt

ADUDual(j) == "d" \o ToString(j)
ADUTmp(I, j) == "tr" \o ToString(NRows(I.Ls[j]))       \* keyed by the range space (= its dimension)

ADUStart(I, h) ==
  LET m == Len(I.Ls)
      names == {ADUDual(j) : j \in 1..m} \cup {ADUTmp(I, j) : j \in 1..m}
      dualOf(nm) == CHOOSE j \in 1..m : ADUDual(j) = nm
      tmpOf(nm) == CHOOSE j \in 1..m : ADUTmp(I, j) = nm
  IN  [nm \in names |->
         IF \E j \in 1..m : ADUDual(j) = nm THEN RZero(NRows(I.Ls[dualOf(nm)]))
         ELSE Garbage(NRows(I.Ls[tmpOf(nm)]))] @@ [x |-> h.x]

\* x -= (1.0 / stepsize) * L[i].adjoint(duals[i])
ADUPre(I, i) == << SAdjoint(i, ADUDual(i), "t1"), SScal("t2", SInv(I.tau), "t1"), SISub("x", "t2") >>
ADUInnerStmts(I, j) ==
  LET step == SMul(I.tau, I.sig[j]) IN <<
  SApply(j, "x", "t1"),                                               \* L[j](x)
  SLin("arg", QOne, ADUDual(j), step, "t1"),                          \* arg = duals[j] + step * L[j](x)
  SProx("g", j, TRUE, step, "arg", ADUTmp(I, j)),                     \* proxs[j](arg, out=tmp_ran)
  SLin("t2", QOne, ADUTmp(I, j), SNeg(QOne), ADUDual(j)),             \* tmp_ran - duals[j]
  SAdjoint(j, "t2", "t3"),                                            \* L[j].adjoint(..)
  SScal("t4", SInv(I.tau), "t3"),                                     \* 1.0 / stepsize * ..
  SISub("x", "t4"),                                                   \* x -= ..
  SAssign(ADUDual(j), ADUTmp(I, j)) >>                                \* duals[j].assign(tmp_ran)

RECURSIVE ADUCatPre(_, _)
ADUCatPre(I, i) == IF i > Len(I.Ls) THEN <<>> ELSE ADUPre(I, i) \o ADUCatPre(I, i + 1)
RECURSIVE ADUCatInner(_, _)
ADUCatInner(I, j) == IF j > Len(I.Ls) THEN <<>> ELSE ADUInnerStmts(I, j) \o ADUCatInner(I, j + 1)
ADUBody(I) == ADUCatPre(I, 1) \o ADUCatInner(I, 1) \o << SCallback("x") >>

ADUPersist(I) == {"x"} \cup {ADUDual(j) : j \in 1..Len(I.Ls)} \cup {ADUTmp(I, j) : j \in 1..Len(I.Ls)}
ADUApi == {"x"}                        \* the duals are not exposed
ADUAbs(I, h) == [x |-> h.x, d |-> [j \in 1..Len(I.Ls) |-> h[ADUDual(j)]]]
=============================================================================

---------------------------- MODULE VectorizeImpl ----------------------------
(***************************************************************************)
(* Layer C (C15): what ONE function object remembers between calls.        *)
(*                                                                         *)
(*   odl/util/vectorization.py:_NumpyVectorizeWrapper  builds its          *)
(*   numpy.vectorize object lazily at the first call and caches it         *)
(*   (self.vfunc); the cached object carries the `otypes` given at         *)
(*   DECORATION time only.  Without otypes numpy.vectorize infers the      *)
(*   output type at EVERY call from the value returned for the FIRST       *)
(*   point (! a Python int there makes the whole result integer).          *)
(*   sampling_function / _make_dual_use_func then cast to the value type   *)
(*   of the space (out-of-place: np.asarray(res, dtype); in-place:         *)
(*   out[:] = res).  Nothing depends on the value type of earlier calls.   *)
(*                                                                         *)
(*   cache \in {"none", "built"}                                           *)
(*   conv  \in {"vectorize_bare", "vectorize_f64", native ones}            *)
(***************************************************************************)
EXTENDS InterpSem

\* NumPy casts: float -> int truncates toward zero, -> float32 rounds to nearest even
TruncQ(q) == IF q[1] >= 0 THEN <<q[1] \div q[2], 1>> ELSE <<-((-q[1]) \div q[2]), 1>>
ImplCastC(dt, z) ==
  CASE dt = "int" -> <<TruncQ(z[1]), QZero>>
    [] dt \in {"f32", "f64"} -> <<CastQ(dt, z[1]), QZero>>
    [] OTHER -> CastC(dt, z)
Decorated(conv) == conv \in {"vectorize_bare", "vectorize_f64"}
\* output type of the vectorised evaluation; pyint1 = the callable returns a Python int at the first grid point
VOut(conv, pyint1) ==
  IF conv = "vectorize_f64" THEN "f64"
  ELSE IF conv = "vectorize_bare" THEN (IF pyint1 THEN "int" ELSE "f64")
  ELSE "f64"                                   \* native NumPy arithmetic on float coordinates
\* a callable with complex values evaluates to complex128 (NumPy type promotion / inference from a complex first value)
IsCplx(vals) == \E t \in 1..Len(vals) : vals[t][2] # QZero
ImplCall(conv, cache, dt, vals, pyint1) ==
  [res   |-> [t \in 1..Len(vals) |-> ImplCastC(dt, ImplCastC(IF IsCplx(vals) THEN "c128" ELSE VOut(conv, pyint1), vals[t]))],
   cache |-> IF Decorated(conv) THEN "built" ELSE cache]

\* the cell in which the current tree leaves the reference (open finding): undecorated type inference
KnownIntFirst(conv, vals, pyint1) ==
  conv = "vectorize_bare" /\ pyint1 /\ \E t \in 1..Len(vals) : vals[t][1][2] # 1
=============================================================================

--------------------------- MODULE SolverIterImpl ---------------------------
(***************************************************************************)
(* Layer C for the solvers modelled at ITERATION granularity (one action   *)
(* per loop iteration plus Start / Callback / Return): landweber,          *)
(* kaczmarz (fixed order), proximal_gradient, mlem, steepest_descent       *)
(* (constant step and Armijo backtracking), conjugate_gradient(_normal),   *)
(* douglas_rachford_pd, forward_backward_pd, power iteration.              *)
(* The heap holds the caller's x and the variables the solver function     *)
(* keeps across iterations; they are lost at Return.  Where the loop body  *)
(* as coded differs from the documented iteration the difference is        *)
(* spelled out here (and only here):                                       *)
(*   forward_backward_pd : `x_old = x` binds a second NAME to the same     *)
(*       object, so after prox_f(..., out=x) the over-relaxation           *)
(*       y = 2 x - x_old is computed as y = x.                              *)
(*   douglas_rachford_pd : the callback receives p1 and the last iteration *)
(*       assigns x = p1 before returning (the caller's x is the internal   *)
(*       variable during the run).                                         *)
(***************************************************************************)
EXTENDS SolverStmt

ItV(j) == "v" \o ToString(j)
ItVs(I, h) == [j \in 1..Len(I.Ls) |-> h[ItV(j)]]
ItPutVs(I, h, v) == [nm \in {ItV(j) : j \in 1..Len(I.Ls)} |-> v[CHOOSE j \in 1..Len(I.Ls) : ItV(j) = nm]] @@ h
ItZeroVs(I) == [j \in 1..Len(I.Ls) |-> RZero(NRows(I.Ls[j]))]

\* forward_backward_pd as coded (x_old aliases x)
FBStepCode(I, s) ==
  LET m  == Len(I.Ls)
      x1 == Prox(I.f, I.tau,
                 RSub(s.x, RScal(I.tau, RAdd(Grad(I.h, s.x), AdjSum(I.Ls, s.v, Len(s.x))))))
      y  == RSub(RScal(Two, x1), x1)            \* y.lincomb(2.0, x, -1, x_old) with x_old is x
  IN  [x |-> x1,
       v |-> [i \in 1..m |-> ProxConj(I.gs[i], I.sig[i],          \* tmp_2 = sigma[i] * (L[i](y) - grad_cc_l[i](v[i]))
                               RAdd(s.v[i], RScal(I.sig[i], LArg(I, i, MatVec(I.Ls[i], y), s.v[i]))))]]

IterStart(I, h) ==
  CASE I.solver = "cg"  -> LET s == CGInit(I, h.x) IN [x |-> s.x, r |-> s.r, p |-> s.p]
    [] I.solver = "cgn" -> LET s == CGNInit(I, h.x) IN [x |-> s.x, rd |-> s.rd, p |-> s.p, s |-> s.s]
    [] I.solver = "dr"  -> ItPutVs(I, [x |-> h.x, p1 |-> h.x], ItZeroVs(I))   \* (code: p1 = 0, unobservable)
    [] I.solver = "fb"  -> ItPutVs(I, [x |-> h.x], ItZeroVs(I))
    [] OTHER -> [x |-> h.x]

IterStep(I, h) ==
  CASE I.solver = "landweber" -> [x |-> LandweberStep(I, [x |-> h.x]).x]
    [] I.solver = "kaczmarz"  -> [x |-> KaczmarzStep(I, [x |-> h.x]).x]
    [] I.solver = "pg"        -> [x |-> PGStep(I, [x |-> h.x]).x]
    [] I.solver = "mlem"      -> [x |-> MLEMStep(I, [x |-> h.x]).x]
    [] I.solver = "sd"        -> [x |-> SDStep(I, [x |-> h.x]).x]
    [] I.solver = "sdbt"      -> [x |-> SDArmijoStep(I, [x |-> h.x]).x]
    [] I.solver = "power"     -> [x |-> PowerStep(I, [x |-> h.x]).x]
    [] I.solver = "cg"  -> LET s == CGStep(I, [x |-> h.x, r |-> h.r, p |-> h.p])
                           IN [x |-> s.x, r |-> s.r, p |-> s.p]
    [] I.solver = "cgn" -> LET s == CGNStep(I, [x |-> h.x, rd |-> h.rd, p |-> h.p, s |-> h.s])
                           IN [x |-> s.x, rd |-> s.rd, p |-> s.p, s |-> s.s]
    [] I.solver = "dr"  -> LET s == DRStep(I, [xi |-> h.x, v |-> ItVs(I, h), x |-> h.p1])
                           IN ItPutVs(I, [x |-> s.xi, p1 |-> s.x], s.v)
    [] I.solver = "fb"  -> LET s == FBStepCode(I, [x |-> h.x, v |-> ItVs(I, h)])
                           IN ItPutVs(I, [x |-> s.x], s.v)

IterBody(I) == << [S0 EXCEPT !.op = "step"], SCallback(IF I.solver = "dr" THEN "p1" ELSE "x") >>

\* what the caller holds after the function returned
IterReturn(I, h) == IF I.solver = "dr" THEN [x |-> h.p1] ELSE [x |-> h.x]

IterAbs(I, h) ==
  CASE I.solver = "cg"  -> [x |-> h.x, r |-> h.r, p |-> h.p]
    [] I.solver = "cgn" -> [x |-> h.x, rd |-> h.rd, p |-> h.p, s |-> h.s]
    [] I.solver = "dr"  -> [xi |-> h.x, v |-> ItVs(I, h), x |-> h.p1]
    [] I.solver = "fb"  -> [x |-> h.x, v |-> ItVs(I, h)]
    [] OTHER -> [x |-> h.x]
=============================================================================

--------------------------- MODULE SolverDPDCImpl ---------------------------
(***************************************************************************)
(* Layer C: odl/solvers/nonsmooth/difference_convex.py : doubleprox_dc,    *)
(* statement by statement.  Both iterates are caller objects updated in    *)
(* place; x.lincomb(...) returns x itself, so both proximals are called    *)
(* aliased (P(x, out=x)).  Reference: SolverSem!DPDCStep =                 *)
(* doubleprox_dc_simple.  tau = gamma, sig[1] = mu, h = phi.               *)
(***************************************************************************)
EXTENDS SolverStmt

DPDCStart(I, h) == [x |-> h.x, y |-> h.y]

DPDCBody(I) == <<
  SAdjoint(1, "y", "t1"),                                             \* K.adjoint(y)                 (fresh)
  SGrad("x", "t2"),                                                   \* phi.gradient(x)              (fresh)
  SLin("t3", QOne, "t1", SNeg(QOne), "t2"),                           \* K.adjoint(y) - phi.gradient(x)
  SLin("x", QOne, "x", I.tau, "t3"),                                  \* x.lincomb(1, x, gamma, ..)   returns x
  SProx("f", 1, FALSE, I.tau, "x", "x"),                              \* f.proximal(gamma)(x, out=x)  (aliased)
  SApply(1, "x", "t4"),                                               \* K(x)                         (fresh)
  SLin("y", QOne, "y", S1of(I), "t4"),                                \* y.lincomb(1, y, mu, K(x))    returns y
  SProx("g", 1, TRUE, S1of(I), "y", "y"),                             \* g.convex_conj.proximal(mu)(y, out=y)
  SCallback("x") >>

DPDCPersist == {"x", "y"}
DPDCApi == {"x", "y"}
DPDCAbs(I, h) == [x |-> h.x, y |-> h.y]
=============================================================================

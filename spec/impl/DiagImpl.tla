------------------------------- MODULE DiagImpl -------------------------------
(***************************************************************************)
(* Layer C (EXT/diag): the decision structures of the CODE as written,     *)
(* checked by TLC to refine layer A (DiagSem) on the bounded instance.     *)
(*   - OperatorTest._scale_invariance: denom = ||A|| * scale * ||x||       *)
(*     (SIGNED scale; the documented denominator is |c| ||A|| ||x||) and    *)
(*     "error = 0 if denom == 0"                                           *)
(*   - the other OperatorTest tolerance comparisons ("0 if denom == 0")     *)
(*   - all_equal / all_almost_equal: the recursion over None / scalars /    *)
(*     arrays / nested iterables and the defaulting of ndigits              *)
(*   - ProgressBar.update: index arithmetic and the 0.1 % update rule       *)
(* `fixed` is the set of repair switches applied: "scale-abs".              *)
(***************************************************************************)
EXTENDS DiagSem

AllSwitches == {"scale-abs"}

(* ------------------------- OperatorTest --------------------------------- *)
\* error = 0 if denom == 0 else num / denom ; fail iff error > tol   (denom may be NEGATIVE in _scale_invariance)
ImplOver(num, den, tol) ==
  IF den = QZero THEN FALSE
  ELSE IF QLt(QZero, den) THEN QLt(QMul(tol, den), num)
  ELSE QLt(tol, QDiv(num, den))                              \* negative denominator: the quotient is <= 0
ImplScaleDen(N, x, c, fixed) == QMul(QMul(N, IF "scale-abs" \in fixed THEN QAbs(c) ELSE c), Nrm(x))
ImplScaleFails(op, N, tol, fixed) ==
  {p \in ExI(op) \X FI : ImplOver(ScaleNum(op, op.ex[p[1]].v, FieldEx[p[2]]), ImplScaleDen(N, op.ex[p[1]].v, FieldEx[p[2]], fixed), tol)}
ImplAdjFails(op, mode, N, tol) ==
  {p \in ExI(op) \X ExI(op) : ImplOver(AdjNum(op, mode, op.ex[p[1]].v, op.ex[p[2]].v), AdjDen(N, op.ex[p[1]].v, op.ex[p[2]].v), tol)}
ImplAAFails(op, N, tol) == {i \in ExI(op) : ImplOver(AANum(op, op.ex[i].v), QMul(N, Nrm(op.ex[i].v)), tol)}
ImplSumFails(op, N, tol) ==
  {p \in ExI(op) \X ExI(op) : ImplOver(SumNum(op, op.ex[p[1]].v, op.ex[p[2]].v), SumDen(N, op.ex[p[1]].v, op.ex[p[2]].v), tol)}
\* derivative loop: ok as soon as one step c has err < 10*tol; for c -> 0 err -> ||dJ p|| (the steps are far below the margins)
ImplDerFails(op, tol) == {p \in ExI(op) \X ExI(op) : ~QLt(DerLim(op, op.ex[p[2]].v), QMul(QI(10), tol))}

ImplAdjoint(op, N, tol, vb) ==
  IF op.adjdom # "ok"
    THEN (IF op.adjdom \in {"dom", "both"} THEN Msg("adj-domain") ELSE <<>>)
         \o (IF op.adjdom \in {"ran", "both"} THEN Msg("adj-range") ELSE <<>>) \o Msg("adj-exit")
  ELSE Tok("adjdef", Card(ImplAdjFails(op, "adj", N, tol)), vb)
       \o (IF op.adjadj = "self" THEN <<>> ELSE Tok("adjadj", Card(ImplAAFails(op, N, tol)), vb))
ImplLinear(op, N, tol, vb, fixed) ==
  IF ~op.flag THEN Msg("notlinear")
  ELSE (IF IsZeroV(Apply(op, ZeroV(2))) THEN <<>> ELSE Msg("zero"))
       \o Tok("scale", Card(ImplScaleFails(op, N, tol, fixed)), vb) \o Tok("sum", Card(ImplSumFails(op, N, tol)), vb)
ImplDerivative(op, tol, vb) == IF op.flag THEN <<>> ELSE Tok("deriv", Card(ImplDerFails(op, tol)), vb)
ImplExpected(op, meth, N, tol, vb, fixed) ==
  CASE meth = "self_adjoint" -> Tok("selfadj", Card(ImplAdjFails(op, "self", N, tol)), vb)
    [] meth = "adjoint"      -> ImplAdjoint(op, N, tol, vb)
    [] meth = "linear"       -> ImplLinear(op, N, tol, vb, fixed)
    [] meth = "derivative"   -> ImplDerivative(op, tol, vb)
    [] meth = "run_tests"    -> IF op.flag THEN ImplLinear(op, N, tol, vb, fixed) \o ImplAdjoint(op, N, tol, vb)
                                ELSE ImplDerivative(op, tol, vb)

(* ------------------------- all_equal / all_almost_equal ----------------- *)
(* results: "T" | "F" | "raise" (an exception leaves the function) | "arr" (a NumPy array is returned, not a bool)   *)
ILeafClose(a, b, nd) == IF LeafClose(a, "py", b, "py", nd) = "T" THEN "T" ELSE "F"     \* (narrow dtypes: "any" in layer A)
IAnd(r, s) == IF r = "raise" THEN "raise" ELSE IF r # "T" THEN r ELSE s         \* left to right, stops at the first non-True
RECURSIVE IAndSeq(_)
IAndSeq(rs) == IF rs = <<>> THEN "T" ELSE IAnd(Head(rs), IAndSeq(Tail(rs)))
IDigits(dx, dy) == Min2(DtDigits(dx, NoneD), DtDigits(dy, NoneD))
RECURSIVE ImplAlmost(_, _, _, _, _)
ImplAlmost(x, dx, y, dy, nd) ==
  IF x.k = "none" /\ y.k = "none" THEN "T"                                                  \* is / == short cut, None special case
  ELSE IF x.k = "arr" /\ y.k = "arr"                                                        \* both have __array__
    THEN LET n == IF nd = NoneD THEN IDigits(x.dt, y.dt) ELSE nd IN                         \* defaulting only here ...
         IF Len(x.v) = Len(y.v) THEN IAndSeq([i \in 1..Len(x.v) |-> ILeafClose(x.v[i], y.v[i], n)])
         ELSE IF Len(x.v) = 1 THEN IAndSeq([i \in 1..Len(y.v) |-> ILeafClose(x.v[1], y.v[i], n)])   \* np.allclose broadcasts
         ELSE IF Len(y.v) = 1 THEN IAndSeq([i \in 1..Len(x.v) |-> ILeafClose(x.v[i], y.v[1], n)])
         ELSE "raise"                                                                       \* shapes do not broadcast
  ELSE IF x.k = "num" /\ y.k = "num"
    THEN ILeafClose(x, y, IF nd = NoneD THEN IDigits(dx, dy) ELSE nd)                       \* ... and at the leaves (np.isclose)
  ELSE IF IsSeq(x) /\ IsSeq(y)                                                              \* zip_longest over both
    THEN IF Len(x.v) = Len(y.v)
           THEN IAndSeq([i \in 1..Len(x.v) |-> ImplAlmost(x.v[i], ChildDt(x), y.v[i], ChildDt(y), nd)])
         ELSE LET k == Min2(Len(x.v), Len(y.v))
                  pre == IAndSeq([i \in 1..k |-> ImplAlmost(x.v[i], ChildDt(x), y.v[i], ChildDt(y), nd)])
              IN  IF pre = "T" THEN "F" ELSE pre
  ELSE IF x.k = "none" \/ y.k = "none" THEN "raise"                                         \* np.isclose(None, ...) raises TypeError
  ELSE "arr"                                                                                \* np.isclose(scalar, sequence) broadcasts
RECURSIVE ImplEqual(_, _, _, _)
ILeafEq(a, da, b, db) == IF a.b = b.b /\ a.d = b.d THEN "T" ELSE "F"          \* (narrow dtypes: see RefinesCmp, "any" in layer A)
ImplEqual(x, dx, y, dy) ==
  IF x.k = "none" /\ y.k = "none" THEN "T"
  ELSE IF x.k = "num" /\ y.k = "num" THEN ILeafEq(x, dx, y, dy)
  ELSE IF IsSeq(x) /\ IsSeq(y)
    THEN IF Len(x.v) = Len(y.v)
           THEN IAndSeq([i \in 1..Len(x.v) |-> ImplEqual(x.v[i], ChildDt(x), y.v[i], ChildDt(y))])
         ELSE "F"
  ELSE IF x.k = "none" \/ y.k = "none" THEN "F"                                             \* iter(None) fails -> direct ==
  ELSE "arr"                                                                                \* iter(scalar) fails -> array == scalar
\* C refines A: True where the documentation says True, not True where it says not True
RefinesCmp(a, c) == (a = "T" => c = "T") /\ (a = "F" => c \in {"F", "raise"})

(* ------------------------- ProgressBar.update --------------------------- *)
\* impl state: idx, cur (= current_progress, the fraction last shown), done
ImplPbWrite(st, ind) ==
  LET n == Prod(st.njobs)  i == PbIndex(st, ind) IN
  IF i < n                                                          \* progress < 1.0
    THEN IF 1000 * i > 1000 * st.shown + n                          \* progress > current_progress + 0.001
           THEN CHOOSE w \in PbBars(i, n) : \A v \in PbBars(i, n) : w[3] <= v[3]
         ELSE PbNone
  ELSE IF st.done THEN PbNone ELSE PbDone
=============================================================================

---- MODULE Expr ----
EXTENDS Integers, Sequences, TLC, FiniteSets
\* tiny expression stack machine over R^2 with integer vectors
Vec == [1..2 -> -1..2]
Leaves == {"id", "sq", "mat", "two"}
VARIABLES stack, steps
vars == <<stack, steps>>
Leaf(n) == [k |-> "leaf", n |-> n]
RECURSIVE Eval(_, _)
Eval(e, x) ==
  CASE e.k = "leaf" -> (CASE e.n = "id" -> x
                          [] e.n = "sq" -> [i \in 1..2 |-> x[i]*x[i]]
                          [] e.n = "mat" -> [i \in 1..2 |-> IF i = 1 THEN x[1] + 2*x[2] ELSE x[2]]
                          [] e.n = "two" -> [i \in 1..2 |-> 2*x[i]])
    [] e.k = "sum" -> LET a == Eval(e.l, x) b == Eval(e.r, x) IN [i \in 1..2 |-> a[i]+b[i]]
    [] e.k = "comp" -> Eval(e.l, Eval(e.r, x))
    [] e.k = "lsc" -> LET a == Eval(e.o, x) IN [i \in 1..2 |-> e.s * a[i]]
    [] e.k = "rsc" -> Eval(e.o, [i \in 1..2 |-> e.s * x[i]])
Init == stack = <<>> /\ steps = 0
Push == \E n \in Leaves : stack' = Append(stack, Leaf(n))
Bin(k) == Len(stack) >= 2 /\ stack' = Append(SubSeq(stack, 1, Len(stack)-2), [k |-> k, l |-> stack[Len(stack)-1], r |-> stack[Len(stack)]])
Un(k) == Len(stack) >= 1 /\ \E s \in {-1, 2} : stack' = Append(SubSeq(stack, 1, Len(stack)-1), [k |-> k, o |-> stack[Len(stack)], s |-> s])
Next == /\ steps < 7 /\ steps' = steps + 1 /\ Len(stack) <= 3
        /\ (Push \/ Bin("sum") \/ Bin("comp") \/ Un("lsc") \/ Un("rsc"))
Spec == Init /\ [][Next]_vars
\* a property that evaluates every built expression at all points
Inv == \A i \in 1..Len(stack) : \A x \in {<<1,2>>, <<-1,1>>} : Eval(stack[i], x) \in [1..2 -> Int]
====

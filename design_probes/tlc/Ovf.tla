---- MODULE Ovf ----
EXTENDS Integers, TLC
VARIABLE x
Init == x = 2000000000
Next == x' = x + 2000000000
Inv == x < 2147483647
====

SPECIFICATION Spec
VIEW View
CONSTRAINT Bound
ACTION_CONSTRAINT Export
CHECK_DEADLOCK FALSE

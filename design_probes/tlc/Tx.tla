---- MODULE Tx ----
EXTENDS Integers, Sequences, TLC, Json, IOUtils
VARIABLES h, act
Vals == -1..1
Init == h \in [1..2 -> [1..2 -> Vals]] /\ act = [n |-> "init"]
Lincomb(a, b, i, j, o) == /\ h' = [h EXCEPT ![o] = [k \in 1..2 |-> a*h[i][k] + b*h[j][k]]]
                          /\ act' = [n |-> "lincomb", a |-> a, b |-> b, x1 |-> i, x2 |-> j, out |-> o]
Next == \E a \in {0,1,2}, b \in {-1,0,1}, i \in 1..2, j \in 1..2, o \in 1..2 : Lincomb(a,b,i,j,o)
Spec == Init /\ [][Next]_<<h,act>>
View == h
Bound == \A o \in 1..2 : \A k \in 1..2 : h[o][k] \in -3..3
Export == Serialize(ToJson([pre |-> h, act |-> act', post |-> h']) \o "\n", IOEnv.OUT_FILE,
             [format |-> "TXT", charset |-> "UTF-8", openOptions |-> <<"WRITE", "CREATE", "APPEND">>]).exitValue = 0
====

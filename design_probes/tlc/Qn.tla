---- MODULE Qn ----
EXTENDS Integers, Sequences, TLC
RECURSIVE Gcd(_,_)
Gcd(a,b) == IF b = 0 THEN a ELSE Gcd(b, a % b)
Abs(a) == IF a < 0 THEN -a ELSE a
Norm(n,d) == LET g == Gcd(Abs(n), Abs(d)) s == IF d < 0 THEN -1 ELSE 1 IN <<s*(n \div g), s*(d \div g)>>
QAdd(p,q) == Norm(p[1]*q[2] + q[1]*p[2], p[2]*q[2])
QMul(p,q) == Norm(p[1]*q[1], p[2]*q[2])
QSub(p,q) == QAdd(p, <<-q[1], q[2]>>)
QLe(p,q) == p[1]*q[2] <= q[1]*p[2]
QAbs(p) == <<Abs(p[1]), p[2]>>
QMax(p,q) == IF QLe(p,q) THEN q ELSE p
QSign(p) == IF p[1] > 0 THEN <<1,1>> ELSE IF p[1] < 0 THEN <<-1,1>> ELSE <<0,1>>
Zero == <<0,1>>
\* soft threshold prox of L1 with step s
Soft(x, s) == QMul(QSign(x), QMax(QSub(QAbs(x), s), Zero))
Lat == { <<n, 4>> : n \in -12..12 }
LatN == { Norm(q[1], q[2]) : q \in Lat }
\* objective |z| + (z-x)^2/(2s)
F(z, x, s) == QAdd(QAbs(z), QMul(QMul(QSub(z,x), QSub(z,x)), <<s[2], 2*s[1]>>))
VARIABLES x, s, p
Init == x \in LatN /\ s \in {<<1,2>>, <<1,1>>, <<2,1>>} /\ p = Soft(x, s)
Next == UNCHANGED <<x,s,p>>
Opt == \A z \in LatN : QLe(F(p,x,s), F(z,x,s))
====

------------------------------ MODULE LincombImpl ------------------------------
(* Probe: implementation-shaped model of odl.space.npy_tensors._lincomb_impl   *)
EXTENDS Integers, Sequences, TLC, FiniteSets
RECURSIVE Gcd(_,_)
Gcd(a,b) == IF b = 0 THEN a ELSE Gcd(b, a % b)
Abs(a) == IF a < 0 THEN -a ELSE a
Nrm(n,d) == LET g == Gcd(Abs(n), Abs(d)) s == IF d < 0 THEN -1 ELSE 1 IN <<s*(n \div g), s*(d \div g)>>
QAdd(p,q) == Nrm(p[1]*q[2] + q[1]*p[2], p[2]*q[2])
QMul(p,q) == Nrm(p[1]*q[1], p[2]*q[2])
QDiv(p,q) == Nrm(p[1]*q[2], p[2]*q[1])
Q(n) == <<n,1>>
Zero == Q(0)
One == Q(1)
N == 2                                   \* abstract vector length
Vals == {Q(-1), Q(0), Q(2)}
Scal == {Q(0), Q(1), Q(-1), Q(2), <<1,2>>}
Vec == [1..N -> Vals]
Objs == 1..3
Regimes == {"direct", "fallback", "blas"}
VAdd(u,v) == [i \in 1..N |-> QAdd(u[i], v[i])]
VScal(a,u) == [i \in 1..N |-> QMul(a, u[i])]
VDivS(u,a) == [i \in 1..N |-> QDiv(u[i], a)]
Ref(a,u,b,v) == VAdd(VScal(a,u), VScal(b,v))

(* --algorithm lincomb
variables heap \in [Objs -> Vec], heap0 = heap,
          a \in Scal, b \in Scal,
          x1 \in Objs, x2 \in Objs, out \in Objs,
          regime \in Regimes, leaf = "none";
define
  Done == pc = "Done"
  Correct == Done => /\ heap[out] = Ref(a, heap0[x1], b, heap0[x2])
                     /\ \A o \in Objs \ {out} : heap[o] = heap0[o]
end define;
macro scal(s, o) begin heap[o] := VScal(s, heap[o]); end macro;
macro copy(src, dst) begin heap[dst] := heap[src]; end macro;
macro axpy(src, dst, s) begin
  \* fallback form: x2 /= a; x2 += x1; x2 *= a  (only if a != 0) ; blas form: dst += s*src
  if regime = "fallback" then
     if s # Zero then heap[dst] := VScal(s, VAdd(VDivS(heap[dst], s), heap[src])); end if;
  else
     heap[dst] := VAdd(heap[dst], VScal(s, heap[src]));
  end if;
end macro;
begin
Start:
  if regime = "direct" then
    leaf := "direct"; heap[out] := Ref(a, heap[x1], b, heap[x2]);
  elsif x1 = x2 /\ b # Zero then
    \* recursion _lincomb_impl(a+b, x1, 0, x1, out)
    leaf := "rec";
    a := QAdd(a, b) || b := Zero;
    goto Start2;
  else
    goto Start2;
  end if;
Fin0: goto Done;
Start2:
  if out = x1 /\ out = x2 then
    leaf := leaf \o "all";
    if QAdd(a,b) # Zero then scal(QAdd(a,b), out); else heap[out] := [i \in 1..N |-> Zero]; end if;
  elsif out = x1 then
    leaf := leaf \o "o1";
    if a # One then scal(a, out); end if;
    A1: if b # Zero then axpy(x2, out, b); end if;
  elsif out = x2 then
    leaf := leaf \o "o2";
    if b # One then scal(b, out); end if;
    A2: if a # Zero then axpy(x1, out, a); end if;
  else
    if b = Zero then
      if a = Zero then leaf := leaf \o "zero"; heap[out] := [i \in 1..N |-> Zero];
      else leaf := leaf \o "scopy1"; copy(x1, out); S1: if a # One then scal(a, out); end if;
      end if;
    else
      if a = Zero then leaf := leaf \o "scopy2"; copy(x2, out); S2: if b # One then scal(b, out); end if;
      elsif a = One then leaf := leaf \o "x1pbx2"; copy(x1, out); S3: axpy(x2, out, b);
      else leaf := leaf \o "generic"; copy(x2, out); S4: if b # One then scal(b, out); end if; S5: axpy(x1, out, a);
      end if;
    end if;
  end if;
end algorithm; *)
================================================================================

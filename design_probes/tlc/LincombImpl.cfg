SPECIFICATION Spec
INVARIANT Correct
CHECK_DEADLOCK FALSE

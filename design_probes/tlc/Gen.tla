---- MODULE Gen ----
EXTENDS Integers, Sequences, TLC, Json, IOUtils
Vals == -1..1
Vec == [1..3 -> Vals]
VARIABLES cfg, res, pc
vars == <<cfg, res, pc>>
Init == /\ cfg \in [a : {-1,0,1,2}, b : {0,1,2}, x1 : Vec, x2 : Vec, al : {"none","o1","o2","all"}]
        /\ res = <<>> /\ pc = "start"
Do == /\ pc = "start" /\ pc' = "done" /\ cfg' = cfg
      /\ res' = [i \in 1..3 |-> cfg.a * cfg.x1[i] + cfg.b * cfg.x2[i]]
Next == Do
Spec == Init /\ [][Next]_vars
Inv == pc = "done" => Len(res) = 3
Export == pc = "done" => Serialize(ToJson([cfg |-> cfg, res |-> res]) \o "\n", IOEnv.OUT_FILE,
             [format |-> "TXT", charset |-> "UTF-8", openOptions |-> <<"WRITE", "CREATE", "APPEND">>]).exitValue = 0
====

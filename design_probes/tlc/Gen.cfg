SPECIFICATION Spec
INVARIANT Inv
CONSTRAINT Export
CHECK_DEADLOCK FALSE

---- MODULE Tr ----
EXTENDS Integers, Sequences, TLC, Json, IOUtils
Trace == ndJsonDeserialize(IOEnv.TRACE_FILE)
VARIABLE l
Init == l = 1
Ok(e) == /\ e.ev = "lincomb"
         /\ \A i \in 1..Len(e.out) : e.out[i] = e.a * e.x1[i] + e.b * e.x2[i]
Next == l <= Len(Trace) /\ Ok(Trace[l]) /\ l' = l + 1
Spec == Init /\ [][Next]_l
Accepted == TLCGet("stats").diameter - 1 = Len(Trace)
====

INIT Init
NEXT Next
INVARIANT Opt

import numpy as np, odl, warnings, itertools
warnings.filterwarnings('ignore')
issues={}
def mk(space, base, layout):
    n = space.size; arr = np.resize(np.array(base), n).astype(space.dtype).reshape(space.shape)
    if layout=='C': return space.element(arr.copy(order='C'))
    if layout=='F': return space.element(np.asfortranarray(arr))
    if layout=='strided':
        big = np.zeros((2,)+space.shape, dtype=space.dtype).reshape((2,)+space.shape); big = np.zeros(tuple(2*s for s in space.shape), dtype=space.dtype)
        view = big[tuple(slice(None,None,2) for _ in space.shape)]; view[...] = arr; return space.element(view)
bases = [[2,-1,0,3],[0,2,1,-2],[1,1,-3,2]]
scal_by_field = {'R':[0,1,-1,2,0.5,-3], 'C':[0,1,-1,2,0.5,1j,1+2j], 'I':[0,1,-1,2,-3]}
for dtype in ['float64','float32','complex128','complex64','int64','int32']:
    fld = 'C' if 'complex' in dtype else ('I' if 'int' in dtype else 'R')
    for shape in [(2,),(99,),(100,),(101,),(49999,),(50000,),(50001,),(10,10),(300,200),(3,4,5)]:
        for layout in ['C','F','strided']:
            if len(shape)==1 and layout=='F': continue
            space = odl.tensor_space(shape, dtype=dtype)
            for pat in ['none','x1=x2','out=x1','out=x2','all']:
                for a,b in itertools.product(scal_by_field[fld], repeat=2):
                    if (a,b) not in [(0,0),(1,0),(0,1),(1,1),(2,0),(0,2),(1,2),(2,1),(2,-3 if fld!='C' else 1j),(-1,-1),(0.5,2) if fld!='I' else (2,2),(1,-1),(-1,1)] : continue
                    X=[mk(space,bs,layout) for bs in bases]
                    x1,x2,out = {'none':(X[0],X[1],X[2]),'x1=x2':(X[0],X[0],X[2]),'out=x1':(X[0],X[1],X[0]),'out=x2':(X[0],X[1],X[1]),'all':(X[0],X[0],X[0])}[pat]
                    e1=x1.asarray().copy(); e2=x2.asarray().copy()
                    exp = a*e1.astype(complex if fld=='C' else float) + b*e2.astype(complex if fld=='C' else float)
                    if out is X[2]: 
                        if fld!='I': out.asarray()[...] = np.nan
                        else: out.asarray()[...] = 12345
                    try:
                        r = space.lincomb(a,x1,b,x2,out=out)
                        tol = 1e-4 if '32' in dtype or dtype=='complex64' else 1e-12
                        ok = r is out and np.allclose(out.asarray(), exp, atol=tol, rtol=tol)
                        if x1 is not out and not np.array_equal(x1.asarray(), e1): ok=False
                        if x2 is not out and not np.array_equal(x2.asarray(), e2): ok=False
                        if not ok: issues.setdefault(('VALUE',dtype,shape if np.prod(shape)<100 else ('>=100' if np.prod(shape)<50000 else '>=50000'),layout,pat),[]).append((a,b))
                    except Exception as e:
                        issues.setdefault(('EXC',type(e).__name__,dtype,'<100' if np.prod(shape)<100 else '>=100'),[]).append((shape,layout,pat,a,b))
for k,v in issues.items(): print(k, len(v), v[:3])
print('families', len(issues))

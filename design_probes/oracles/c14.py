import numpy as np, odl, warnings, itertools
warnings.filterwarnings('ignore')
from fractions import Fraction as F
issues={}
def note(k,v): issues.setdefault(k,[]).append(v)
def ref_nodes(a,b,n,L,R):
    a,b=F(a),F(b)
    if n==1:
        # single node
        if L and R: return None
    if L and R: g0,g1=a,b
    elif L and not R: g0,g1=a,b-(b-a)/(2*n-1)
    elif not L and R: g0,g1=a+(b-a)/(2*n-1),b
    else: g0,g1=a+(b-a)/(2*n),b-(b-a)/(2*n)
    if n==1: return [g0] 
    return [g0+(g1-g0)*F(i,n-1) for i in range(n)]
lims=[(0,1),(F(-1,2),F(5,4)),(-2,3)]
for (a,b),n,(L,R) in itertools.product(lims, range(1,6), itertools.product([False,True],repeat=2)):
    try:
        p = odl.uniform_partition(float(a),float(b),n,nodes_on_bdry=[(L,R)])
    except Exception as e: note(('CONSTRUCT-EXC',n,L,R,type(e).__name__),(a,b)); continue
    g = ref_nodes(a,b,n,L,R)
    if g is None: note(('n=1 both on bdry constructed',),(a,b,p.grid.coord_vectors)); continue
    got = p.grid.coord_vectors[0]
    if not np.allclose(got,[float(t) for t in g],atol=1e-14): note(('NODES',n,L,R),(a,b,got,g))
    bd = p.cell_boundary_vecs[0]
    refbd=[F(a)]+[(g[i]+g[i+1])/2 for i in range(n-1)]+[F(b)]
    if not np.allclose(bd,[float(t) for t in refbd],atol=1e-14): note(('BDRY',n,L,R),(a,b))
    if not np.all(np.diff(bd)>0): note(('BDRY-NOT-INCREASING',n,L,R),(a,b,bd))
    cs = p.cell_sizes_vecs[0]
    if not np.isclose(cs.sum(), float(b-a)): note(('SIZES-SUM',n),(a,b,L,R,cs))
    if n>1:
        side = p.cell_sides[0]; cnt = n-(L+R)/2
        if not np.isclose(side*cnt, float(b-a)): note(('SIDE*COUNT',n,L,R),(a,b,side))
        fr = p.boundary_cell_fractions[0]
        if not np.allclose(fr,(0.5 if L else 1.0, 0.5 if R else 1.0)): note(('FRACTIONS',n,L,R),(fr,))
    if p.nodes_on_bdry_byaxis[0] != (L,R) and n>1: note(('NODES_ON_BDRY flag',n,L,R),(p.nodes_on_bdry_byaxis,))
    # index for points on eighth lattice
    for k in range(0, 8*int(np.ceil(float(b-a)))+1):
        pt = F(a)+F(k,8)
        if pt>b: break
        j = p.index(float(pt))
        lo,hi = refbd[j],refbd[j+1]
        if not (lo<=pt<hi or (pt==F(b) and j==n-1)): note(('INDEX',n,L,R),(a,b,pt,j))
        jf = p.index(float(pt), floating=True)
        ex = j+float((pt-lo)/(hi-lo))
        if not np.isclose(jf,ex): note(('INDEX-FLOAT',n,L,R),(a,b,pt,jf,ex))
    # slicing
    for i,k in itertools.combinations(range(n+1),2):
        try:
            q = p[i:k]
            if not np.allclose(q.cell_boundary_vecs[0], bd[i:k+1]): note(('SLICE-CELLS',n,L,R),(i,k))
        except Exception as e: note(('SLICE-EXC',type(e).__name__),(n,L,R,i,k,str(e)[:60]))
    for i in range(n):
        try:
            q = p[i]
            if not np.allclose(q.cell_boundary_vecs[0], bd[i:i+2]): note(('INTINDEX-CELL',n,L,R),(i,))
        except Exception as e: note(('INTINDEX-EXC',type(e).__name__),(n,L,R,i,str(e)[:60]))
# parameter completion
for (a,b),n,(L,R) in itertools.product(lims, range(2,6), itertools.product([False,True],repeat=2)):
    p0 = odl.uniform_partition(float(a),float(b),n,nodes_on_bdry=[(L,R)]); h=float(p0.cell_sides[0])
    for kw in [dict(min_pt=float(a),max_pt=float(b),cell_sides=h),dict(min_pt=float(a),shape=n,cell_sides=h),dict(max_pt=float(b),shape=n,cell_sides=h),dict(min_pt=float(a),max_pt=float(b),shape=n,cell_sides=h)]:
        try:
            p = odl.uniform_partition(nodes_on_bdry=[(L,R)], **kw)
            if not p.approx_equals(p0, atol=1e-12): note(('COMPLETION',tuple(sorted(kw))),(a,b,n,L,R))
        except Exception as e: note(('COMPLETION-EXC',tuple(sorted(kw)),type(e).__name__),(a,b,n,L,R,str(e)[:50]))
for k,v in sorted(issues.items(), key=lambda kv:str(kv[0])): print(k,len(v),v[:2])
print('families',len(issues))

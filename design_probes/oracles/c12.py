import numpy as np, odl, warnings, itertools
warnings.filterwarnings('ignore')
S=odl.solvers; rng=np.random.default_rng(3)
issues={}
def note(k,v): issues.setdefault(k,[]).append(v)
def spd(n, cond):
    Q,_=np.linalg.qr(rng.normal(size=(n,n))); ev=np.linspace(1,cond,n); return Q@np.diag(ev)@Q.T
for trial in range(40):
    n = rng.integers(2,6); cond = rng.choice([2,10,1e3,1e6])
    Am = spd(n,cond); A = odl.MatrixOperator(Am); sp=A.domain
    xs = sp.element(rng.normal(size=n)); b = A(xs)
    # CG energy norm error
    x = sp.element(rng.normal(size=n)); errs=[]
    def cb(z): e=(z-xs); errs.append(float(e.inner(A(e))))
    e0=x-xs; E0=float(e0.inner(A(e0)))
    S.conjugate_gradient(A, x, b, niter=n, callback=cb)
    seq=[E0]+errs
    if any(seq[i+1] > seq[i]*(1+1e-9)+1e-18 for i in range(len(seq)-1)): note(('CG-ENERGY-INCREASE',cond),seq)
    if seq[-1] > 1e-10*max(1,E0)*cond: note(('CG-NOT-EXACT-AFTER-N',cond),(n,seq[-1],E0))
    # CGN + Landweber residual
    m = n+rng.integers(0,3); Bm = rng.normal(size=(m,n)); B=odl.MatrixOperator(Bm); rhs=B.range.element(rng.normal(size=m))
    for nm,solver,kw in [('CGN',S.conjugate_gradient_normal,{}),('LANDWEBER',S.landweber,{'omega':1.0/np.linalg.norm(Bm,2)**2})]:
        x=B.domain.element(rng.normal(size=n)); res=[float((B(x)-rhs).norm())]
        solver(B,x,rhs,niter=15,callback=lambda z: res.append(float((B(z)-rhs).norm())),**kw)
        if any(res[i+1]>res[i]*(1+1e-9)+1e-15 for i in range(len(res)-1)): note((nm+'-RESIDUAL-INCREASE',),res)
    # Kaczmarz: consistent system
    xsol=B.domain.element(rng.normal(size=n)); rows=[odl.MatrixOperator(Bm[i:i+1,:]) for i in range(m)]; rh=[r(xsol) for r in rows]
    x=B.domain.element(rng.normal(size=n)); dist=[float((x-xsol).norm())]
    om=[1.0/np.linalg.norm(Bm[i])**2 for i in range(m)]
    S.kaczmarz(rows,x,rh,niter=5,omega=om,callback=lambda z: dist.append(float((z-xsol).norm())),callback_loop='inner')
    if any(dist[i+1]>dist[i]*(1+1e-9)+1e-15 for i in range(len(dist)-1)): note(('KACZMARZ-DIST-INCREASE',),dist)
    # steepest descent with backtracking
    f = S.L2NormSquared(B.range).translated(rhs)*B
    x=B.domain.element(rng.normal(size=n)); vals=[float(f(x))]
    try:
        S.steepest_descent(f,x,line_search=S.BacktrackingLineSearch(f),maxiter=20,callback=lambda z: vals.append(float(f(z))))
        if any(vals[i+1]>vals[i]*(1+1e-12)+1e-15 for i in range(len(vals)-1)): note(('SD-OBJ-INCREASE',),vals)
    except Exception as e: note(('SD-EXC',type(e).__name__),str(e)[:80])
    # power method
    for M in [Bm, Am, rng.normal(size=(n,n))]:
        op=odl.MatrixOperator(M); true=np.linalg.norm(M,2)
        for it in [2,10,100]:
            try:
                est=odl.power_method_opnorm(op, xstart=op.domain.element(rng.normal(size=M.shape[1])), maxiter=it)
                if est>true*(1+1e-9): note(('POWER-EXCEEDS',it),(est,true))
            except Exception as e: note(('POWER-EXC',type(e).__name__),str(e)[:60])
# nonsmooth: fixed point at solution + convergence on small problem min |x-b|_1?? use  f=IndicatorBox, g=L2sq(.-c) , L
r2=odl.rn(2); Lm=np.array([[1.,1],[0,1]]); L=odl.MatrixOperator(Lm); c=r2.element([1.,-2.])
# problem: min_x ind_box(x) + |Lx - c|_2^2 ; solve by brute force projected gradient
f=S.IndicatorBox(r2,-1,3); g=S.L2NormSquared(r2).translated(c)
x=r2.element([0.,0.])
for k in range(20000):
    x = f.proximal(1)(x-0.05*L.adjoint(g.gradient(L(x))))
xsol=x.copy(); ysol=g.gradient(L(xsol))
print('solution', xsol, 'dual', ysol)
nL=np.linalg.norm(Lm,2)
runs={'pdhg': lambda x0,n,cb: S.pdhg(x0,f,g,L,niter=n,tau=0.5/nL,sigma=0.5/nL,callback=cb,y=ysol.copy() if x0 is xsol2 else None),
      'dr': lambda x0,n,cb: S.douglas_rachford_pd(x0,f,[g],[L],niter=n,tau=1.0/nL,sigma=[1.0/nL],callback=cb),
      'fb': lambda x0,n,cb: S.forward_backward_pd(x0,f,[S.ZeroFunctional(r2)],[L],g*L,tau=0.1,sigma=[0.1],niter=n,callback=cb),
      'pg': lambda x0,n,cb: S.proximal_gradient(x0,f,g*L,gamma=0.1,niter=n,callback=cb),
      'apg': lambda x0,n,cb: S.accelerated_proximal_gradient(x0,f,g*L,gamma=0.1,niter=n,callback=cb),
      'admm': lambda x0,n,cb: S.admm_linearized(x0,f,g,L,tau=0.3/nL**2,sigma=1.0,niter=n,callback=cb)}
for nm,run in runs.items():
    xsol2=xsol.copy(); its=[]
    try:
        x0=r2.element([4.,-3.]); run(x0,500,lambda z: its.append(z.copy()))
        d=(x0-xsol).norm(); 
        if d>1e-3: note((nm+'-NOT-CONVERGED',),float(d))
        # fixed point from the solution (primal only; dual starts at default)
    except Exception as e: note((nm+'-EXC',type(e).__name__),str(e)[:80])
for k,v in sorted(issues.items(), key=lambda kv:str(kv[0])): print(k,len(v),str(v[:1])[:200])
print('families',len(issues))

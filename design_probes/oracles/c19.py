import numpy as np, odl, warnings, itertools
warnings.filterwarnings('ignore')
from fractions import Fraction as Fr
angs = {'3-4-5': np.arctan2(4,3), '5-12-13': np.arctan2(12,5), '-8-15-17': np.arctan2(15,-8), '90': np.pi/2, '3-4-5 neg': -np.arctan2(4,3)+2*np.pi}
issues=[]
def snapfrac(v, D):
    q = np.round(np.asarray(v,float)*D)/D
    return q, np.max(np.abs(q-np.asarray(v,float)))
def rigid_checks(name, g, angles, dparams, ndim):
    for an, a in angles.items():
        try:
            R = g.rotation_matrix(a)
            if not np.allclose(R@R.T, np.eye(ndim), atol=1e-12) or not np.isclose(np.linalg.det(R),1): issues.append((name,'ROT',an))
            for u in dparams:
                p = g.det_point_position(a, u); ref = g.det_refpoint(a) + R @ g.detector.surface(u)
                if not np.allclose(p, ref, atol=1e-12): issues.append((name,'DETPOINT',an,u,p,ref))
                d2s = g.det_to_src(a, u)
                if not np.isclose(np.linalg.norm(d2s),1): issues.append((name,'D2S-NORM',an,u))
                if hasattr(g,'src_position'):
                    s = g.src_position(a); v = s - p
                    if not np.allclose(v/np.linalg.norm(v), d2s, atol=1e-12): issues.append((name,'D2S-DIR',an,u,d2s,v/np.linalg.norm(v)))
                    d2su = g.det_to_src(a,u,normalized=False)
                    if not np.allclose(d2su, v, atol=1e-12): issues.append((name,'D2S-UNNORM',an,u))
                else:
                    # parallel: same direction for all u, orthogonal to det axes
                    d0 = g.det_to_src(a, dparams[0])
                    if not np.allclose(d0, d2s): issues.append((name,'PAR-CONST',an))
                    axes = np.atleast_2d(g.det_axis(a) if hasattr(g,'det_axis') else g.det_axes(a))
                    if not np.allclose(axes@d2s, 0, atol=1e-12): issues.append((name,'PAR-ORTH',an, axes@d2s))
        except Exception as e: issues.append((name,'EXC',an,type(e).__name__,str(e)[:80])); return
    # vectorized vs single
    try:
        A = np.array(list(angles.values())); U = np.array(dparams)
        if U.ndim==1:  # 1d detector params
            P = g.det_point_position(A[:,None], U[None,:]) if False else g.det_point_position(A, U[:len(A)])
            for i,(a,u) in enumerate(zip(A,U[:len(A)])):
                if not np.allclose(P[i], g.det_point_position(a,u)): issues.append((name,'VEC',i))
            M = g.det_refpoint(A)
            for i,a in enumerate(A):
                if not np.allclose(M[i], g.det_refpoint(a)): issues.append((name,'VEC-REF',i))
    except Exception as e: issues.append((name,'VEC-EXC',type(e).__name__,str(e)[:80]))
ap = odl.uniform_partition(0, 2*np.pi, 10); dp1 = odl.uniform_partition(-3, 3, 7); dp2 = odl.uniform_partition([-3,-2],[3,2],(7,5))
u1 = [-2.5, 0.0, 1.25, 2.0, 0.5]; u2 = [np.array([-2.5,1.0]), np.array([0.,0.]), np.array([1.25,-1.5])]
geoms = {
 'Par2d': (odl.tomo.Parallel2dGeometry(ap, dp1), u1, 2),
 'Par2d init(3,4)': (odl.tomo.Parallel2dGeometry(ap, dp1, det_pos_init=(3,4)), u1, 2),
 'Par2d transl': (odl.tomo.Parallel2dGeometry(ap, dp1, translation=(1,-2)), u1, 2),
 'Fan': (odl.tomo.FanBeamGeometry(ap, dp1, src_radius=5, det_radius=3), u1, 2),
 'Fan init': (odl.tomo.FanBeamGeometry(ap, dp1, src_radius=5, det_radius=3, src_to_det_init=(3,4), translation=(1,2)), u1, 2),
 'Fan curved': (odl.tomo.FanBeamGeometry(ap, odl.uniform_partition(-0.5,0.5,7), src_radius=5, det_radius=3, det_curvature_radius=8), [-0.4,0.,0.2,0.3,0.1], 2),
 'Par3dAxis': (odl.tomo.Parallel3dAxisGeometry(ap, dp2), u2, 3),
 'Par3dAxis ax(2,2,1)': (odl.tomo.Parallel3dAxisGeometry(ap, dp2, axis=(2,2,1)), u2, 3),
 'Cone': (odl.tomo.ConeBeamGeometry(ap, dp2, src_radius=5, det_radius=3), u2, 3),
 'Cone helical ax': (odl.tomo.ConeBeamGeometry(ap, dp2, src_radius=5, det_radius=3, pitch=2.0, axis=(2,2,1), translation=(1,0,-1), offset_along_axis=0.5), u2, 3),
 'Cone cyl': (odl.tomo.ConeBeamGeometry(ap, odl.uniform_partition([-0.5,-2],[0.5,2],(7,5)), src_radius=5, det_radius=3, det_curvature_radius=(8,None)), [np.array([-0.4,1.0]),np.array([0.2,-1.5])], 3),
 'Cone sph': (odl.tomo.ConeBeamGeometry(ap, odl.uniform_partition([-0.5,-0.4],[0.5,0.4],(7,5)), src_radius=5, det_radius=3, det_curvature_radius=(8,8)), [np.array([-0.4,0.3]),np.array([0.2,-0.1])], 3),
}
for nm,(g,us,nd) in geoms.items(): rigid_checks(nm, g, angs, us, nd)
# Euler
ap3 = odl.uniform_partition([0,0,0],[2*np.pi,np.pi,2*np.pi],(4,3,4))
ge = odl.tomo.Parallel3dEulerGeometry(ap3, dp2)
for trip in itertools.product(list(angs.values())[:3], repeat=3):
    R = ge.rotation_matrix(trip)
    if not np.allclose(R@R.T, np.eye(3), atol=1e-12) or not np.isclose(np.linalg.det(R),1): issues.append(('Euler','ROT',trip))
    for u in u2:
        p = ge.det_point_position(trip,u); ref = ge.det_refpoint(trip)+R@ge.detector.surface(u)
        if not np.allclose(p,ref,atol=1e-12): issues.append(('Euler','DETPOINT',trip))
# snapping feasibility: rotation entries snap to /5,/13,/17
g = geoms['Par2d init(3,4)'][0]
for an,a in angs.items():
    q,err = snapfrac(g.det_refpoint(a), 5*13*17*5); print('snap', an, err)
# slicing
g = geoms['Cone helical ax'][0]; gs = g[2:7]
print('slice angles', gs.angles[:2], g.angles[2:4], np.allclose(gs.det_refpoint(gs.angles[0]), g.det_refpoint(g.angles[2])))
# factories coverage
for nm, space in {'2d': odl.uniform_discr([-1,-1],[1,1],(8,8)), '3d': odl.uniform_discr([-1,-1,-1],[1,1,1],(8,8,8)), '2d shifted': odl.uniform_discr([0,-1],[3,1],(12,8))}.items():
    for fac in ['parallel','cone']:
        try:
            geom = odl.tomo.parallel_beam_geometry(space) if fac=='parallel' else odl.tomo.cone_beam_geometry(space, src_radius=5.0, det_radius=3.0)
            worst=0
            for a in np.linspace(0, 2*np.pi, 73):
                for c in space.domain.corners():
                    if fac=='parallel':
                        ref = geom.det_refpoint(a); axes=np.atleast_2d(geom.det_axis(a) if space.ndim==2 else geom.det_axes(a))
                        uv = axes@(c-ref)
                    else:
                        s=geom.src_position(a); ref=geom.det_refpoint(a); axes=np.atleast_2d(geom.det_axis(a) if space.ndim==2 else geom.det_axes(a))
                        nrm = (ref - s)/np.linalg.norm(ref-s); d=c-s; t=np.dot(ref-s,nrm)/np.dot(d,nrm); uv=axes@(s+t*d-ref)
                    lo,hi=geom.det_partition.min_pt, geom.det_partition.max_pt
                    exc = np.max(np.maximum(lo-uv, uv-hi)); worst=max(worst,exc)
            print('coverage', nm, fac, 'excess' , worst)
        except Exception as e: print('coverage', nm, fac, 'EXC', type(e).__name__, str(e)[:80])
kinds={}
for i in issues: kinds.setdefault((i[0],i[1]),[]).append(i[2:])
for k,v in kinds.items(): print('==',k,len(v), v[:2])

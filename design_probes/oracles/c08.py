import numpy as np, odl, warnings, itertools
warnings.filterwarnings('ignore')
S = odl.solvers; rng=np.random.default_rng(1)
res=[]
def rnd(sp, scale=1.0): return sp.element(scale*rng.choice([-2,-1,-0.5,-0.25,0.25,0.5,1,2,3],size=sp.shape))
def chk(name,f,pos=False,small=False):
    sp=f.domain
    try: fc=f.convex_conj
    except Exception as e: return
    if type(fc).__name__=='FunctionalDefaultConvexConjugate': evalable=False
    else: evalable=True
    # Fenchel-Young
    if evalable:
        try:
            for _ in range(40):
                x=rnd(sp); y=rnd(sp, 0.3 if small else 1.0)
                if pos: x=sp.element(np.abs(x.asarray()))
                a=f(x); b=fc(y)
                if np.isfinite(a) and np.isfinite(b) and a+b < x.inner(y)-1e-9*max(1,abs(a),abs(b)): res.append((name,'FY',a,b,x.inner(y))); break
            # equality at gradient
            try:
                G=f.gradient
                for _ in range(5):
                    x=rnd(sp); 
                    if pos: x=sp.element(np.abs(x.asarray())+0.1)
                    y=G(x); a=f(x); b=fc(y)
                    if abs(a+b-x.inner(y))>1e-8*max(1,abs(a),abs(b)): res.append((name,'FYEQ',a,b,x.inner(y))); break
            except NotImplementedError: pass
            # biconjugate
            try:
                fcc=fc.convex_conj
                if type(fcc).__name__!='FunctionalDefaultConvexConjugate':
                    for _ in range(10):
                        x=rnd(sp)
                        if pos: x=sp.element(np.abs(x.asarray())+0.1)
                        a=f(x); b=fcc(x)
                        if not (a==b or abs(a-b)<=1e-9*max(1,abs(a))): res.append((name,'BICONJ',a,b)); break
            except Exception as e: res.append((name,'BICONJ-EXC',type(e).__name__,str(e)[:60]))
        except Exception as e: res.append((name,'EXC',type(e).__name__,str(e)[:70]))
    # Moreau
    try:
        for sigma in [0.5,2.0]:
            P=f.proximal(sigma); Pc=fc.proximal(1.0/sigma)
            for _ in range(5):
                x=rnd(sp)
                if pos: x=sp.element(np.abs(x.asarray())+0.1)
                lhs = P(x)+sigma*Pc(x/sigma)
                if (lhs-x).norm()>1e-8*max(1,x.norm()): res.append((name,'MOREAU',sigma,(lhs-x).norm())); raise StopIteration
    except StopIteration: pass
    except NotImplementedError: pass
    except Exception as e: res.append((name,'MOREAU-EXC',type(e).__name__,str(e)[:70]))
for snm, sp in {'rn3': odl.rn(3), 'rn3w': odl.rn(3, weighting=2.0), 'd3s': odl.uniform_discr(0, 0.75, 3)}.items():
    g=sp.element([1.0,2.0,0.5]); A=odl.ScalingOperator(sp,2.0)
    base={'L1':S.L1Norm(sp),'L2':S.L2Norm(sp),'Linf':S.LpNorm(sp,np.inf),'L2sq':S.L2NormSquared(sp),'Huber':S.Huber(sp,0.4),'Const':S.ConstantFunctional(sp,3.),'Zero':S.ZeroFunctional(sp),
          'IndZero':S.IndicatorZero(sp),'IndL1':S.IndicatorLpUnitBall(sp,1),'IndL2':S.IndicatorLpUnitBall(sp,2),'IndLinf':S.IndicatorLpUnitBall(sp,np.inf),
          'Quad':S.QuadraticForm(operator=A,vector=g,constant=2),'QuadA':S.QuadraticForm(operator=A),'Lin':S.QuadraticForm(vector=g,constant=1),'Box':S.IndicatorBox(sp,-1,2)}
    for nm,f in base.items():
        for dn,h in {'':f,'3*':3*f,'*2':f*2.0,'.transl':f.translated(g),'+2':f+2.0,' linpert':S.FunctionalQuadraticPerturb(f,linear_term=g,constant=1.),' quadpert':S.FunctionalQuadraticPerturb(f,quadratic_coeff=0.5),'*g':f*g}.items():
            chk(f'{nm}{dn} @{snm}',h)
    for nm,f in {'KL':S.KullbackLeibler(sp,prior=g),'KLCE':S.KullbackLeiblerCrossEntropy(sp,prior=g),'KL noprior':S.KullbackLeibler(sp)}.items():
        chk(f'{nm} @{snm}',f,pos=True,small=True)
    chk(f'InfConv @{snm}', S.InfimalConvolution(S.L1Norm(sp),S.L2NormSquared(sp)))
    chk(f'Bregman @{snm}', S.BregmanDistance(S.L2NormSquared(sp), g, 2*g))
d=odl.uniform_discr(0,2,2); V=d**2
for nm,f in {'GroupL1':S.GroupL1Norm(V),'GroupL1 p1':S.GroupL1Norm(V,1),'SepSum':S.SeparableSum(S.L1Norm(d),S.L2NormSquared(d)),'Huber vf':S.Huber(V,0.4)}.items(): chk(nm,f)
kinds={}
for r in res: kinds.setdefault(r[1],[]).append(r)
for k,v in kinds.items():
    print('==',k,len(v))
    for r in v[:30]: print('   ',r[0], r[2:])

import numpy as np, odl, warnings, random, itertools
warnings.filterwarnings('ignore')
exec(open('c04.py').read().split("pts = [")[0])   # reuse leaves/combos/realize
def dirderiv(ref, x, d, r):
    # Richardson-extrapolated central difference (exact for polys up to deg 8 w/ 4 levels approx)
    hs=[1.0,0.5,0.25,0.125]
    D=[(np.asarray(ref(x+h*d))-np.asarray(ref(x-h*d)))/(2*h) for h in hs]
    # Richardson
    T=[D]
    for k in range(1,len(hs)):
        T.append([ (4**k*T[k-1][i+1]-T[k-1][i])/(4**k-1) for i in range(len(T[k-1])-1)])
    return T[-1][0]
level0=[l for l in leaves() if l[5] not in ('Abs','L1')]
fails={}; n=0
def test(e):
    global n
    op, ref, dm, r, l, nm = e
    for x,d in [(np.array([1.,2.]),np.array([1.,-1.])), (np.array([-1.,3.]),np.array([2.,1.]))]:
        n+=1
        try:
            Dop = op.derivative(rn.element(x))
            got = Dop(rn.element(d)); got = np.asarray(got) if r=='V' else float(got)
            exp = dirderiv(ref, x, d, r)
            if not np.allclose(got, exp, rtol=1e-6, atol=1e-6): return ('VALUE', nm, got, exp)
            if not Dop.is_linear: return ('NOTLINEAR', nm)
        except NotImplementedError as ex: return None
        except Exception as ex: return ('EXC', nm, type(ex).__name__, str(ex)[:70])
    return None
level1=[]
for a in level0:
    for c in combos(a):
        e,err=realize(c)
        if e: level1.append(e)
for a,b in itertools.product(level0, repeat=2):
    for c in combos(a,b)[-4:]:
        e,err=realize(c)
        if e: level1.append(e)
for e in level0+level1:
    f=test(e)
    if f: fails.setdefault(f[0],[]).append(f[1:])
random.seed(2); pool=level0+level1
for k in range(3000):
    a=random.choice(pool); b=random.choice(pool); c=random.choice(combos(a,b)); e,err=realize(c)
    if not e: continue
    f=test(e)
    if f: fails.setdefault(f[0],[]).append(f[1:])
print('checked', n)
for k,v in fails.items():
    print('==',k,len(v))
    seen=set()
    for item in v:
        key=item[0][:40]
        if len(seen)<14: print('   ', item); seen.add(key)

import numpy as np, odl, warnings, itertools
warnings.filterwarnings('ignore')
from odl.set.sets import *
from odl.space.pspace import ProductSpaceConstWeighting, ProductSpaceArrayWeighting
from odl.space.npy_tensors import NumpyTensorSpaceConstWeighting, NumpyTensorSpaceArrayWeighting
warr = np.array([1.,2.,3.])
def universe():
    U = {}
    U['Empty']=lambda: EmptySet(); U['Univ']=lambda: UniversalSet(); U['R']=lambda: RealNumbers(); U['C']=lambda: ComplexNumbers(); U['Z']=lambda: Integers()
    U['Str3']=lambda: Strings(3); U['Str4']=lambda: Strings(4)
    U['Cart(R,Z)']=lambda: CartesianProduct(RealNumbers(),Integers()); U['Cart(Z,R)']=lambda: CartesianProduct(Integers(),RealNumbers())
    U['Union(R,Z)']=lambda: SetUnion(RealNumbers(),Integers()); U['Union(Z,R)']=lambda: SetUnion(Integers(),RealNumbers())
    U['Inter(R,Z)']=lambda: SetIntersection(RealNumbers(),Integers()); U['Fin(1,2,3)']=lambda: FiniteSet(1,2,3); U['Fin(3,2,1)']=lambda: FiniteSet(3,2,1)
    U['Intv[0,1]']=lambda: odl.IntervalProd(0,1); U['Intv[0,1]x[0,2]']=lambda: odl.IntervalProd([0,0],[1,2]); U['Intv[0,1] deg']=lambda: odl.IntervalProd([0,1],[1,1])
    U['Grid3']=lambda: odl.uniform_grid(0,1,3); U['Grid3b']=lambda: odl.RectGrid([0,0.5,1]); U['Grid nonuni']=lambda: odl.RectGrid([0,0.25,1])
    U['Part3']=lambda: odl.uniform_partition(0,1,3); U['Part3 nob']=lambda: odl.uniform_partition(0,1,3,nodes_on_bdry=True); U['Part nonuni']=lambda: odl.nonuniform_partition([0.1,0.5,0.9],min_pt=0,max_pt=1)
    U['TW const2']=lambda: NumpyTensorSpaceConstWeighting(2.0); U['PW const2']=lambda: ProductSpaceConstWeighting(2.0); U['TW const1']=lambda: NumpyTensorSpaceConstWeighting(1.0)
    U['TW const2 p1']=lambda: NumpyTensorSpaceConstWeighting(2.0, exponent=1); U['TW arr']=lambda: NumpyTensorSpaceArrayWeighting(warr); U['TW arr copy']=lambda: NumpyTensorSpaceArrayWeighting(warr.copy()); U['PW arr']=lambda: ProductSpaceArrayWeighting(warr)
    U['rn3']=lambda: odl.rn(3); U['rn3 f32']=lambda: odl.rn(3,dtype='float32'); U['cn3']=lambda: odl.cn(3); U['ts3 int']=lambda: odl.tensor_space(3,dtype=int); U['rn(3,1)']=lambda: odl.rn((3,1))
    U['rn3 w2']=lambda: odl.rn(3,weighting=2.0); U['rn3 warr']=lambda: odl.rn(3,weighting=warr); U['rn3 warr copy']=lambda: odl.rn(3,weighting=warr.copy()); U['rn3 p1']=lambda: odl.rn(3,exponent=1)
    U['rn3 w1']=lambda: odl.rn(3,weighting=1.0)
    U['discr3']=lambda: odl.uniform_discr(0,1,3); U['discr3 nob']=lambda: odl.uniform_discr(0,1,3,nodes_on_bdry=True); U['discr3 c']=lambda: odl.uniform_discr(0,1,3,dtype=complex); U['discr3 w']=lambda: odl.uniform_discr(0,1,3,weighting=2.0)
    U['discr3 [0,3]']=lambda: odl.uniform_discr(0,3,3)
    U['ps rn3^2']=lambda: odl.ProductSpace(odl.rn(3),2); U['ps rn3 x rn3']=lambda: odl.ProductSpace(odl.rn(3),odl.rn(3)); U['ps w']=lambda: odl.ProductSpace(odl.rn(3),2,weighting=2.0); U['ps warr']=lambda: odl.ProductSpace(odl.rn(3),3,weighting=warr)
    U['ps nested']=lambda: odl.ProductSpace(odl.ProductSpace(odl.rn(3),2),2); U['ps p1']=lambda: odl.ProductSpace(odl.rn(3),2,exponent=1); U['ps rn3,cn?']=lambda: odl.ProductSpace(odl.rn(3),odl.rn(2))
    return U
U=universe(); names=list(U); A={k:U[k]() for k in names}; B={k:U[k]() for k in names}
issues=[]
def eq(a,b):
    try: return bool(a==b)
    except Exception as e: return 'EXC:'+type(e).__name__
def h(a):
    try: return hash(a)
    except Exception as e: return 'EXC:'+type(e).__name__
E={}
objs=[(k+'#1',A[k]) for k in names]+[(k+'#2',B[k]) for k in names]
for (n1,o1),(n2,o2) in itertools.product(objs,repeat=2): E[n1,n2]=eq(o1,o2)
for n,o in objs:
    if E[n,n] is not True: issues.append(('REFLEXIVE',n,E[n,n]))
    hv=h(o)
    if isinstance(hv,str): issues.append(('HASH-EXC',n,hv))
for (n1,o1),(n2,o2) in itertools.combinations(objs,2):
    if E[n1,n2]!=E[n2,n1]: issues.append(('SYMMETRY',n1,n2,E[n1,n2],E[n2,n1]))
    if E[n1,n2] is True and not isinstance(h(o1),str) and not isinstance(h(o2),str) and h(o1)!=h(o2): issues.append(('HASH',n1,n2))
    # same descriptor copies should be equal? (except identity-based arrays)
for k in names:
    if E[k+'#1',k+'#2'] is not True: issues.append(('COPY-NOT-EQUAL',k,E[k+'#1',k+'#2']))
nt=0
for (n1,_),(n2,_),(n3,_) in itertools.product(objs,repeat=3):
    if E[n1,n2] is True and E[n2,n3] is True and E[n1,n3] is not True: issues.append(('TRANSITIVE',n1,n2,n3)); nt+=1
    if nt>10: break
kinds={}
for i in issues: kinds.setdefault(i[0],[]).append(i[1:])
for k,v in kinds.items():
    print('==',k,len(v)); 
    for x in v[:20]: print('   ',x)
# membership / element
print('--- element/membership')
sp=odl.rn(3); x=sp.element([1,2,3])
print('element(x) is x', sp.element(x) is x, '| x in rn3 copy', x in odl.rn(3), '| x in rn3 w2', x in odl.rn(3,weighting=2.0))
try: sp.element([1,2]); print('no raise on bad shape')
except Exception as e: print('bad shape raises', type(e).__name__)
d=odl.uniform_discr(0,1,3); y=d.element([1,2,3]); print('discr element(y) is y', d.element(y) is y, '| tensor elem in discr?', d.tspace.element([1,2,3]) in d)
ps=odl.ProductSpace(odl.rn(3),2); z=ps.element([[1,2,3],[4,5,6]]); print('pspace element(z) is z', ps.element(z) is z)
for nm,spc in {'rn(2,3)':odl.rn((2,3)),'rn(2,3) w2':odl.rn((2,3),weighting=2.0),'rn(2,3) warr':odl.rn((2,3),weighting=np.arange(1,7.).reshape(2,3)),'cn3':odl.cn(3),'discr(2,3)':odl.uniform_discr([0,0],[1,1],(2,3)), 'discr c':odl.uniform_discr(0,1,3,dtype=complex)}.items():
    for what,fn in {'astype f32':lambda s:s.astype('float32'),'astype complex':lambda s:s.astype(complex),'real_space':lambda s:s.real_space,'complex_space':lambda s:s.complex_space,
                    'byaxis[0]':lambda s:(s.byaxis if not hasattr(s,'byaxis_in') else s.byaxis_in)[0],'byaxis[1:]':lambda s:(s.byaxis if not hasattr(s,'byaxis_in') else s.byaxis_in)[1:],
                    'elem[0]':lambda s:s.one()[0],'elem[:,1:]':lambda s:s.one()[:,1:] if s.ndim>1 else s.one()[1:]}.items():
        try: r=fn(spc); print(f'{nm:14s} {what:15s} ->', repr(r).replace('\n',' ')[:110])
        except Exception as e: print(f'{nm:14s} {what:15s} -> EXC', type(e).__name__, str(e)[:70])

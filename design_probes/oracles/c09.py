import numpy as np, odl, warnings, itertools
warnings.filterwarnings('ignore')
S = odl.solvers; rng=np.random.default_rng(0)
res=[]
def chk(name, f, pts):
    sp=f.domain
    try: G=f.gradient
    except NotImplementedError: return
    except Exception as e: res.append((name,'GRADERR',type(e).__name__,str(e)[:60])); return
    for x in pts:
        for d in [sp.element(rng.choice([-1.,0.5,1,2],size=sp.shape)) if not isinstance(sp,odl.ProductSpace) else sp.element([rng.choice([-1.,0.5,1,2],size=s.shape) for s in sp.spaces]) for _ in range(2)]:
            try:
                g = G(x); lhs = g.inner(d)
                errs=[]
                for h in [1e-2,1e-3,1e-4]:
                    fd=(f(x+h*d)-f(x-h*d))/(2*h); errs.append(abs(fd-lhs))
                if errs[-1] > 1e-5*max(1,abs(lhs)): res.append((name,'GRAD',lhs,errs)); return
                dd = f.derivative(x)(d)
                if abs(dd-lhs)>1e-9*max(1,abs(lhs)): res.append((name,'DERIV',dd,lhs)); return
            except Exception as e: res.append((name,'EXC',type(e).__name__,str(e)[:70])); return
    L = f.grad_lipschitz
    if np.isfinite(L):
        worst=0
        for _ in range(30):
            a = pts[0] + sp.element(rng.normal(size=sp.shape)) if not isinstance(sp,odl.ProductSpace) else pts[0]
            b = pts[1] + sp.element(rng.normal(size=sp.shape)) if not isinstance(sp,odl.ProductSpace) else pts[1]
            r = (G(a)-G(b)).norm()/max((a-b).norm(),1e-12); worst=max(worst,r)
        if worst > L*(1+1e-9)+1e-12: res.append((name,'LIPSCHITZ', 'claimed',L,'observed',worst))
for snm, sp in {'rn3': odl.rn(3), 'rn3w': odl.rn(3, weighting=2.0), 'd3': odl.uniform_discr(0, 6, 3), 'd3s': odl.uniform_discr(0, 0.75, 3), 'd3b': odl.uniform_discr(0,1,3,nodes_on_bdry=True)}.items():
    pts=[sp.element([3.0, 0.5, 1.25]), sp.element([1.0, 2.5, 0.75])]; g = sp.element([1.0, 2.0, 0.5])
    A = odl.MatrixOperator(np.array([[1.,2,0],[0,1,3],[1,1,1]]), domain=sp, range=sp) if snm.startswith('rn') else odl.ScalingOperator(sp, 2.0)
    base = {'L1': S.L1Norm(sp), 'L2': S.L2Norm(sp), 'L2sq': S.L2NormSquared(sp), 'Huber': S.Huber(sp,0.4), 'KL': S.KullbackLeibler(sp,prior=g), 'KLcc': S.KullbackLeibler(sp,prior=g).convex_conj,
            'KLCE': S.KullbackLeiblerCrossEntropy(sp,prior=g), 'KLCEcc': S.KullbackLeiblerCrossEntropy(sp,prior=g).convex_conj, 'Quad': S.QuadraticForm(operator=A, vector=g, constant=2),
            'Const': S.ConstantFunctional(sp,3.), 'Lin': S.QuadraticForm(vector=g)}
    pt_scale = {'KLcc': 0.1}
    derived={}
    for nm,f in base.items():
        derived[nm]=f
        derived[nm+'.transl']=f.translated(0.25*g) if nm not in ('KL','KLCE','KLcc') else f
        derived['3*'+nm]=3*f; derived[nm+'*2']=f*2.0 if nm not in('KLcc',) else f; derived[nm+'*0.5']=f*0.5
        derived[nm+'*g']=f*g if nm not in('KLcc',) else f; derived[nm+'+L2sq']=f+S.L2NormSquared(sp); derived[nm+'+2']=f+2.0
        derived[nm+' o A']=f*A if nm not in ('KL','KLCE','KLcc') else f
        derived[nm+' quadpert']=S.FunctionalQuadraticPerturb(f, quadratic_coeff=1.5, linear_term=g, constant=1)
        derived[nm+' quadpert-lin']=S.FunctionalQuadraticPerturb(f, linear_term=g)
        derived[nm+' prod L2sq']=S.FunctionalProduct(f, S.L2NormSquared(sp)); derived[nm+' quot']=S.FunctionalQuotient(f, S.L2NormSquared(sp)+1)
        derived[nm+' bregman']=S.BregmanDistance(f, pts[1], sp.element([0.5,0.5,0.5]))
    for nm,f in derived.items():
        p = [0.1*q for q in pts] if nm.startswith('KLcc') else pts
        chk(f'{nm} @{snm}', f, p)
# vector fields
d=odl.uniform_discr(0,2,2); V=d**2; pts=[V.element([[3.,-0.5],[4.,0.25]]), V.element([[1.,2],[0.5,-1]])]
for nm,f in {'GroupL1':S.GroupL1Norm(V),'Huber vf':S.Huber(V,0.4),'L2 V':S.L2Norm(V),'SepSum':S.SeparableSum(S.L2NormSquared(d),S.Huber(d,0.3)),'L2sq V':S.L2NormSquared(V)}.items():
    chk(nm, f, pts)
kinds={}
for r in res: kinds.setdefault(r[1],[]).append(r)
for k,v in kinds.items():
    print('==',k,len(v))
    for r in v[:25]: print('   ',r[0], r[2:])

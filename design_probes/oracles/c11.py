import numpy as np, odl, warnings, itertools
warnings.filterwarnings('ignore')
S = odl.solvers
from odl.solvers.nonsmooth.admm import admm_linearized, admm_linearized_simple
from odl.solvers.nonsmooth.alternating_dual_updates import adupdates, adupdates_simple
from odl.solvers.nonsmooth.difference_convex import doubleprox_dc, doubleprox_dc_simple
r2 = odl.rn(2); r3 = odl.rn(3)
A = odl.MatrixOperator(np.array([[1.,1],[0,1],[2,-1]]))   # r2 -> r3
def funcs(sp):
    g = sp.element(np.arange(1, sp.size+1)/2.)
    return {'L1': S.L1Norm(sp), 'L2': S.L2Norm(sp), 'L2sq': S.L2NormSquared(sp), 'L2sq-g': S.L2NormSquared(sp).translated(g), 'L1-g': S.L1Norm(sp).translated(g),
            'Box': S.IndicatorBox(sp, -1, 2), 'Linf': S.LpNorm(sp, np.inf), 'KL': S.KullbackLeibler(sp, prior=g), 'Huber': S.Huber(sp, 0.5), 'IndL2': S.IndicatorLpUnitBall(sp, 2), '2*L1': 2*S.L1Norm(sp), 'Zero': S.ZeroFunctional(sp)}
def run(solver, *args, **kw):
    its=[]; 
    solver(*args, callback=lambda z: its.append(z.asarray().copy()) if not isinstance(z, odl.ProductSpaceElement) else its.append(np.array(z)), **kw)
    return its
res=[]
# ADMM
for fn, f in funcs(r2).items():
    for gn, g in funcs(r3).items():
        try:
            x1 = r2.element([4.,-3]); x2 = x1.copy()
            its1=[]; admm_linearized(x1, f, g, A, 0.125, 1.0, 5, callback=lambda z: its1.append(z.asarray().copy()))
            its2=[]; admm_linearized_simple(x2, f, g, A, 0.125, 1.0, 5, callback=lambda z: its2.append(z.asarray().copy()))
            d = max(np.max(np.abs(a-b)) for a,b in zip(its1,its2))
            if not d < 1e-9 or len(its1)!=5: res.append(('admm', fn, gn, d, len(its1)))
        except Exception as e: res.append(('admm', fn, gn, 'ERR', type(e).__name__, str(e)[:50]))
print('admm done', len(res))
# adupdates (no callback in simple) -> compare final
for gn1, g1 in funcs(r3).items():
    for gn2, g2 in funcs(r2).items():
        if gn1 in ('KL',) or gn2 in ('KL',): continue
        try:
            x1 = r2.element([4.,-3]); x2 = x1.copy()
            Ls=[A, odl.IdentityOperator(r2)]
            adupdates(x1, [g1,g2], Ls, 4.0, [0.2, 0.2], 4)
            adupdates_simple(x2, [g1,g2], Ls, 4.0, [0.2, 0.2], 4)
            d = np.max(np.abs(x1.asarray()-x2.asarray()))
            if not d < 1e-9: res.append(('adupdates', gn1, gn2, d))
        except Exception as e: res.append(('adupdates', gn1, gn2, 'ERR', type(e).__name__, str(e)[:50]))
print('adupdates done', len(res))
# doubleprox_dc
for fn, f in funcs(r2).items():
    for gn, g in funcs(r3).items():
        if 'KL' in (fn, gn): continue
        try:
            phi = S.L2NormSquared(r2)
            x1 = r2.element([4.,-3]); y1 = r3.element([1.,0,2]); x2=x1.copy(); y2=y1.copy()
            doubleprox_dc(x1, y1, f, phi, g, A, 4, 0.25, 0.25)
            doubleprox_dc_simple(x2, y2, f, phi, g, A, 4, 0.25, 0.25)
            d = max(np.max(np.abs(x1.asarray()-x2.asarray())), np.max(np.abs(y1.asarray()-y2.asarray())))
            if not d < 1e-9: res.append(('dpdc', fn, gn, d))
        except Exception as e: res.append(('dpdc', fn, gn, 'ERR', type(e).__name__, str(e)[:50]))
for r in res: print(r)
print(len(res))

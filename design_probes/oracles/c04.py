import numpy as np, odl, warnings, random, itertools
warnings.filterwarnings('ignore')
rn = odl.rn(2); R = rn.field
S = odl.solvers
v0 = rn.element([2., -1.]); Mx = np.array([[1.,2],[0,1]])
# each expr: (odl_op, ref_fn, dom, ran, linear, desc)
def leaves():
    return [
     (odl.IdentityOperator(rn), lambda x: x.copy(), 'V','V',True,'I'),
     (odl.ScalingOperator(rn, 3.0), lambda x: 3*x, 'V','V',True,'S3'),
     (odl.MatrixOperator(Mx), lambda x: Mx@x, 'V','V',True,'M'),
     (odl.MultiplyOperator(v0), lambda x: v0.asarray()*x, 'V','V',True,'Mul'),
     (odl.PowerOperator(rn, 2), lambda x: x**2, 'V','V',False,'Sq'),
     (odl.ConstantOperator(v0), lambda x: v0.asarray().copy(), 'V','V',False,'Cst'),
     (odl.ufunc_ops.absolute(rn), lambda x: np.abs(x), 'V','V',False,'Abs'),
     (S.L2NormSquared(rn), lambda x: float(x@x), 'V','F',False,'L2sq'),
     (S.L1Norm(rn), lambda x: float(np.abs(x).sum()), 'V','F',False,'L1'),
     (odl.InnerProductOperator(v0), lambda x: float(x@v0.asarray()), 'V','F',True,'Inn'),
     (S.QuadraticForm(vector=v0, constant=0), lambda x: float(x@v0.asarray()), 'V','F',True,'Lin'),
    ]
scal = [2.0, -1.0, 0.5, 0.0, 1.0]
def combos(a, b=None):
    """yield (op, ref, dom, ran, lin, desc) built from a (and b)"""
    A, fa, da, ra, la, na = a
    out=[]
    for s in scal:
        out.append((lambda A=A,s=s: s*A, lambda x,fa=fa,s=s: s*fa(x), da, ra, la, f'({s}*{na})'))
        out.append((lambda A=A,s=s: A*s, lambda x,fa=fa,s=s: fa(s*x), da, ra, la, f'({na}*{s})'))
        if s != 0: out.append((lambda A=A,s=s: A/s, lambda x,fa=fa,s=s: fa(x/s), da, ra, la, f'({na}/{s})'))
    out.append((lambda A=A: -A, lambda x,fa=fa: -fa(x), da, ra, la, f'(-{na})'))
    out.append((lambda A=A: +A, lambda x,fa=fa: fa(x), da, ra, la, f'(+{na})'))
    out.append((lambda A=A: A*v0, lambda x,fa=fa: fa(v0.asarray()*x), da, ra, la, f'({na}*v)'))
    if ra=='V':
        out.append((lambda A=A: v0*A, lambda x,fa=fa: v0.asarray()*fa(x), da, ra, la, f'(v*{na})'))
        out.append((lambda A=A: A+v0, lambda x,fa=fa: fa(x)+v0.asarray(), da, ra, False, f'({na}+v)'))
        out.append((lambda A=A: A-v0, lambda x,fa=fa: fa(x)-v0.asarray(), da, ra, False, f'({na}-v)'))
        out.append((lambda A=A: v0-A, lambda x,fa=fa: v0.asarray()-fa(x), da, ra, False, f'(v-{na})'))
        out.append((lambda A=A: A**2, lambda x,fa=fa: fa(fa(x)), da, ra, la, f'({na}**2)'))
        out.append((lambda A=A: A**3, lambda x,fa=fa: fa(fa(fa(x))), da, ra, la, f'({na}**3)'))
        out.append((lambda A=A: A+2.0, lambda x,fa=fa: fa(x)+2.0, da, ra, False, f'({na}+2.0)'))
    else:
        out.append((lambda A=A: v0*A, lambda x,fa=fa: v0.asarray()*fa(x), da, 'V', la, f'(v*{na})f'))
        out.append((lambda A=A: A+2.0, lambda x,fa=fa: fa(x)+2.0, da, ra, False, f'({na}+2.0)'))
        out.append((lambda A=A: A-2.0, lambda x,fa=fa: fa(x)-2.0, da, ra, False, f'({na}-2.0)'))
    if b is not None:
        B, fb, db, rb, lb, nb = b
        if ra==rb:
            out.append((lambda A=A,B=B: A+B, lambda x,fa=fa,fb=fb: fa(x)+fb(x), da, ra, la and lb, f'({na}+{nb})'))
            out.append((lambda A=A,B=B: A-B, lambda x,fa=fa,fb=fb: fa(x)-fb(x), da, ra, la and lb, f'({na}-{nb})'))
        if rb=='V':
            out.append((lambda A=A,B=B: A*B, lambda x,fa=fa,fb=fb: fa(fb(x)), db, ra, la and lb, f'({na}o{nb})'))
            out.append((lambda A=A,B=B: A@B, lambda x,fa=fa,fb=fb: fa(fb(x)), db, ra, la and lb, f'({na}@{nb})'))
    return out
def realize(c):
    mk, ref, d, r, l, n = c
    try: op = mk()
    except Exception as e: return None, ('BUILD', n, type(e).__name__, str(e)[:60])
    return (op, ref, d, r, l, n), None
pts = [np.array([1.,2.]), np.array([-1.,3.]), np.array([0.5,-2.])]
fails={}; nchk=0
def test(e):
    global nchk
    op, ref, d, r, l, n = e
    for x in pts:
        nchk+=1
        try:
            got = op(rn.element(x))
            got = np.asarray(got) if r=='V' else float(got)
            exp = ref(x)
            if not np.allclose(got, exp, rtol=1e-9, atol=1e-9): return ('VALUE', n, got, exp)
            if r=='V':
                o = rn.element([np.nan, np.nan]); res = op(rn.element(x), out=o)
                if res is not o or not np.allclose(o.asarray(), exp): return ('INPLACE', n, o.asarray(), exp)
        except Exception as ex:
            return ('EXC', n, type(ex).__name__, str(ex)[:60])
    if bool(op.is_linear) != bool(l): return ('LINFLAG', n, op.is_linear, l)
    return None
level0 = leaves()
random.seed(1)
level1=[]
for a in level0:
    for c in combos(a): 
        e, err = realize(c)
        if err: fails.setdefault(err[0]+':'+err[2],[]).append(err[1]); continue
        level1.append(e)
for a,b in itertools.product(level0, repeat=2):
    for c in combos(a,b)[-4:]:
        e, err = realize(c)
        if err: continue
        level1.append(e)
for e in level0+level1:
    f = test(e)
    if f: fails.setdefault(f[0],[]).append(f[1:])
# level 2: sample
pool = level0+level1
for k in range(4000):
    a = random.choice(pool); b = random.choice(pool)
    cs = combos(a, b)
    c = random.choice(cs)
    e, err = realize(c)
    if err:
        if err[2] not in ('OpTypeError','TypeError'): fails.setdefault(err[0]+':'+err[2],[]).append(err[1])
        continue
    f = test(e)
    if f: fails.setdefault(f[0],[]).append(f[1:])
print('checked evals', nchk)
for k,v in fails.items():
    print('==',k,len(v))
    for item in v[:12]: print('   ', item)

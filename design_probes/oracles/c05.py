import numpy as np, odl, itertools, warnings
warnings.filterwarnings('ignore')
def basis(space):
    """yield (label, element) real basis of space (for complex: e_k and i e_k)."""
    if isinstance(space, odl.set.sets.Field):
        yield space.element(1.0)
        if space == odl.ComplexNumbers(): yield space.element(1j)
        return
    z = space.zero()
    def rec(sp, setter):
        if isinstance(sp, odl.ProductSpace):
            for i, s in enumerate(sp.spaces):
                yield from rec(s, setter + [i])
        else:
            for idx in np.ndindex(sp.shape):
                for val in ([1.0, 1j] if sp.is_complex else [1.0]):
                    yield setter, idx, val
    for setter, idx, val in rec(space, []):
        e = space.zero(); t = e
        for i in setter: t = t[i]
        t[idx] = val
        yield e
def inner(space, a, b):
    if isinstance(space, odl.set.sets.Field): return a*np.conj(b)
    return a.inner(b)
def check(name, A, realpart=False):
    try:
        Ad = A.adjoint
    except Exception as e:
        return (name, 'NOADJ', type(e).__name__, str(e)[:60])
    try:
        bd = list(basis(A.domain)); br = list(basis(A.range))
        worst = 0
        for x in bd:
            Ax = A(x)
            for y in br:
                lhs = inner(A.range, Ax, y); rhs = inner(A.domain, x, Ad(y))
                d = abs((lhs-rhs).real) if realpart else abs(lhs-rhs)
                worst = max(worst, d)
        # adjoint.adjoint acts like A
        worst2 = 0
        try:
            Add = Ad.adjoint
            for x in bd:
                d = A(x) - Add(x) if not isinstance(A.range, odl.set.sets.Field) else A(x)-Add(x)
                worst2 = max(worst2, abs(d) if np.isscalar(d) else d.norm())
        except Exception as e:
            worst2 = 'ERR '+type(e).__name__
        return (name, 'OK' if worst < 1e-9 else 'FAIL', worst, worst2)
    except Exception as e:
        return (name, 'ERR', type(e).__name__, str(e)[:80])
res=[]
rn3 = odl.rn(3); rn3w = odl.rn(3, weighting=2.0); rn3a = odl.rn(3, weighting=[1.,2.,3.]); cn3 = odl.cn(3); cn3w = odl.cn(3, weighting=[1.,2.,3.])
d1 = odl.uniform_discr(0, 2, 4); d1b = odl.uniform_discr(0, 2, 4, nodes_on_bdry=True); d2 = odl.uniform_discr([0,0],[1,2],(3,2)); d1c = odl.uniform_discr(0,2,4,dtype=complex)
for nm, sp in [('rn3',rn3),('rn3w',rn3w),('rn3a',rn3a),('cn3',cn3),('cn3w',cn3w),('d1',d1),('d1b',d1b)]:
    res.append(check('Scaling(2) '+nm, odl.ScalingOperator(sp, 2.0)))
    if sp.is_complex: res.append(check('Scaling(1+2j) '+nm, odl.ScalingOperator(sp, 1+2j)))
    v = sp.element(np.arange(1, sp.size+1) * ((1+1j) if sp.is_complex else 1))
    res.append(check('Multiply(v) '+nm, odl.MultiplyOperator(v)))
    res.append(check('Multiply(v,field) '+nm, odl.MultiplyOperator(v, domain=sp.field, range=sp)))
    res.append(check('InnerProduct(v) '+nm, odl.InnerProductOperator(v)))
    res.append(check('Zero '+nm, odl.ZeroOperator(sp)))
    res.append(check('Identity '+nm, odl.IdentityOperator(sp)))
    if sp.is_complex:
        res.append(check('RealPart '+nm, odl.RealPart(sp), realpart=True))
        res.append(check('ImagPart '+nm, odl.ImagPart(sp), realpart=True))
    else:
        res.append(check('ComplexEmbedding '+nm, odl.ComplexEmbedding(sp), realpart=True))
        res.append(check('ComplexEmbedding(1j) '+nm, odl.ComplexEmbedding(sp, scalar=1j), realpart=True))
# matrix operator
res.append(check('Matrix rn3->rn2', odl.MatrixOperator(np.array([[1.,2,0],[0,1,3]]))))
res.append(check('Matrix rn3w->rn2w', odl.MatrixOperator(np.array([[1.,2,0],[0,1,3]]), domain=rn3w, range=odl.rn(2, weighting=5.0))))
res.append(check('Matrix rn3a->rn2', odl.MatrixOperator(np.array([[1.,2,0],[0,1,3]]), domain=rn3a)))
res.append(check('Matrix cn3', odl.MatrixOperator(np.array([[1.,2j,0],[0,1,3],[1j,0,1]]), domain=cn3)))
res.append(check('Matrix axis', odl.MatrixOperator(np.array([[1.,2],[0,1],[3,1]]), domain=odl.rn((2,2)), axis=1)))
# diff ops
for sp_nm, sp in [('d1',d1),('d1b',d1b),('d2',d2),('d1c',d1c)]:
    for method in ['forward','backward','central']:
        for pad in ['constant','symmetric','periodic','order0','order1','order2','symmetric_adjoint','order0_adjoint','order1_adjoint','order2_adjoint']:
            try: op = odl.PartialDerivative(sp, 0, method=method, pad_mode=pad)
            except Exception as e: continue
            r = check(f'PartialDeriv {sp_nm} {method} {pad}', op)
            if r[1] != 'OK': res.append(r)
    for pad in ['constant','symmetric','periodic','order1']:
        for cls in [odl.Gradient, odl.Laplacian]:
            try: r = check(f'{cls.__name__} {sp_nm} {pad}', cls(sp, pad_mode=pad))
            except Exception as e: continue
            if r[1]!='OK': res.append(r)
        try:
            r = check(f'Divergence {sp_nm} {pad}', odl.Divergence(range=sp, pad_mode=pad))
            if r[1]!='OK': res.append(r)
        except Exception as e: res.append(('Divergence',sp_nm,pad,'CONSTRUCT',str(e)[:50]))
# resizing
for pad in ['constant','periodic','symmetric','order0','order1']:
    for sp_nm, sp in [('d1',d1),('d1b',d1b),('d2',d2)]:
        try:
            op = odl.ResizingOperator(sp, ran_shp=[n+2 for n in sp.shape], pad_mode=pad)
            r = check(f'Resizing {sp_nm} {pad}', op)
            if r[1]!='OK': res.append(r)
        except Exception as e: res.append(('Resizing',sp_nm,pad,'ERR',str(e)[:60]))
# tensor ops
pw = d2 ** 2
vf = pw.element([[[1,2],[3,4],[5,6]],[[0,1],[1,0],[2,2]]])
res.append(check('PointwiseInner', odl.PointwiseInner(pw, vf)))
res.append(check('PointwiseInner weighted', odl.PointwiseInner(pw, vf, weighting=[1,3])))
res.append(check('PointwiseSum', odl.PointwiseSum(pw)))
pwc = odl.uniform_discr([0,0],[1,2],(3,2),dtype=complex)**2
vfc = pwc.element([[[1,2j],[3,4],[5,6]],[[0,1],[1j,0],[2,2]]])
res.append(check('PointwiseInner complex', odl.PointwiseInner(pwc, vfc)))
res.append(check('Sampling', odl.SamplingOperator(d2, [[0,1,1],[0,1,0]])))
res.append(check('Sampling integrate', odl.SamplingOperator(d2, [[0,1,1],[0,1,0]], variant='integrate')))
res.append(check('WeightedSumSampling', odl.WeightedSumSamplingOperator(d2, [[0,1,1],[0,1,0]], variant='char_fun')))
res.append(check('WeightedSumSampling dirac', odl.WeightedSumSamplingOperator(d2, [[0,1,1],[0,1,0]], variant='dirac')))
res.append(check('Flattening', odl.FlatteningOperator(d2)))
res.append(check('Flattening F', odl.FlatteningOperator(d2, order='F')))
# pspace ops
I = odl.IdentityOperator(rn3); M = odl.MatrixOperator(np.array([[1.,2,0],[0,1,3],[1,1,1]]))
res.append(check('ProductSpaceOp', odl.ProductSpaceOperator([[I, M],[0, 2*I]])))
res.append(check('ComponentProjection', odl.ComponentProjection(rn3**2, 1)))
res.append(check('ComponentProjection wpspace', odl.ComponentProjection(odl.ProductSpace(rn3,2,weighting=[1,4]), 1)))
res.append(check('Broadcast', odl.BroadcastOperator(I, M)))
res.append(check('Reduction', odl.ReductionOperator(I, M)))
res.append(check('Diagonal', odl.DiagonalOperator(I, M)))
res.append(check('Broadcast weighted', odl.BroadcastOperator(odl.IdentityOperator(rn3w), odl.ScalingOperator(rn3w,2))))
# arithmetic
res.append(check('sum', I + M)); res.append(check('comp', M*M)); res.append(check('3*M', 3*M)); res.append(check('M*3', M*3))
Mc = odl.MatrixOperator(np.array([[1.,2j,0],[0,1,3],[1j,0,1]]), domain=cn3)
res.append(check('(1+2j)*Mc', (1+2j)*Mc)); res.append(check('Mc*(1+2j)', Mc*(1+2j)))
vc = cn3.element([1+1j, 2, -1j])
res.append(check('vc*Mc', vc*Mc)); res.append(check('Mc*vc', Mc*vc))
res.append(check('FunctionalLeftVectorMult', vc * odl.InnerProductOperator(vc)))
# fourier
for sp_nm, sp in [('d1c', d1c), ('d1 real hc', d1)]:
    for impl in ['numpy']:
        try:
            F_ = odl.trafos.DiscreteFourierTransform(sp, impl=impl, halfcomplex=(sp.is_real))
            res.append(check(f'DFT {sp_nm}', F_, realpart=sp.is_real))
            FT = odl.trafos.FourierTransform(sp, impl=impl)
            res.append(check(f'FT {sp_nm}', FT, realpart=sp.is_real))
        except Exception as e: res.append(('fourier',sp_nm,'ERR',str(e)[:60]))
try:
    W = odl.trafos.WaveletTransform(odl.uniform_discr(0,1,8), 'db2', nlevels=2, pad_mode='periodization')
    res.append(check('Wavelet db2 per', W))
except Exception as e: res.append(('wavelet','ERR',str(e)[:60]))
for r in res:
    if r[1] != 'OK' or (len(r)>3 and not (isinstance(r[3], (int,float)) and r[3] < 1e-9)): print(r)
print('total', len(res), 'ok', sum(1 for r in res if r[1]=='OK'))

import numpy as np, odl, warnings, inspect
warnings.filterwarnings('ignore')
S = odl.solvers; P = odl.solvers.nonsmooth.proximal_operators
def alias_check(name, op, x):
    try:
        ref = op(x)
        y = x.copy(); r = op(y, out=y)
        ok_id = (r is y)
        diff = (ref - y).norm() if hasattr(ref,'norm') else abs(ref-y)
        unchanged = True
        return (name, 'OK' if diff < 1e-9*max(1, ref.norm()) and ok_id else 'FAIL', diff, ok_id)
    except Exception as e:
        return (name, 'ERR', type(e).__name__, str(e)[:60])
res=[]
for snm, sp in {'rn4': odl.rn(4), 'd4': odl.uniform_discr(0,2,4)}.items():
    x = sp.element([3.0, -0.5, 1.25, -4]); g = sp.element([1.0, 2.0, 0.5, 1.5]); sig_el = sp.element([0.5,1,2,0.25])
    facs = {}
    for nm in ['proximal_l1','proximal_convex_conj_l1','proximal_l2','proximal_convex_conj_l2','proximal_l2_squared','proximal_convex_conj_l2_squared','proximal_convex_conj_kl','proximal_convex_conj_kl_cross_entropy']:
        for gg in [None, g]:
            for lam in [1, 2.5]:
                facs[f'{nm} g={gg is not None} lam={lam}'] = getattr(P, nm)(sp, lam=lam, g=gg)
    facs['linfty'] = P.proximal_linfty(sp); facs['cc_linfty'] = P.proximal_convex_conj_linfty(sp)
    facs['box'] = P.proximal_box_constraint(sp, -1, 2); facs['nonneg'] = P.proximal_nonnegativity(sp); facs['huber'] = P.proximal_huber(sp, 0.5)
    facs['const'] = P.proximal_const_func(sp)
    facs['translation(l1)'] = P.proximal_translation(P.proximal_l1(sp), g)
    facs['arg_scaling(l1,2)'] = P.proximal_arg_scaling(P.proximal_l1(sp), 2.0)
    facs['quad_pert(l1)'] = P.proximal_quadratic_perturbation(P.proximal_l1(sp), 0.5, g)
    facs['cconj(l2)'] = P.proximal_convex_conj(P.proximal_l2(sp))
    facs['composition'] = P.proximal_composition(P.proximal_l1(sp), odl.ScalingOperator(sp, 2.0), 4.0)
    facs['simplex'] = S.IndicatorSimplex(sp, 2).proximal
    for nm, fac in facs.items():
        for sig in [0.5, sig_el]:
            try: op = fac(sig)
            except Exception as e:
                continue
            xx = x if 'kl' not in nm else sp.element([0.5, -0.5, 0.25, -4])
            r = alias_check(f'{nm} {snm} sig={"el" if sig is sig_el else sig}', op, xx)
            if r[1] != 'OK': res.append(r)
# vector field proximals
d = odl.uniform_discr(0,2,3); V = d**2; xv = V.element([[3.,-0.5,1],[4,0.25,-2]]); gv = V.element([[1.,1,1],[0,2,1]])
for nm in ['proximal_l1_l2','proximal_convex_conj_l1_l2']:
    for gg in [None, gv]:
        op = getattr(P, nm)(V, lam=1.5, g=gg)(0.5)
        r = alias_check(f'{nm} g={gg is not None}', op, xv)
        if r[1]!='OK': res.append(r)
r = alias_check('combine_proximals', P.combine_proximals(P.proximal_l1(d), P.proximal_l2(d))(0.5), xv)
if r[1]!='OK': res.append(r)
# solver building-block operators
sp = odl.rn(4); x = sp.element([3.0, -0.5, 1.25, -4]); g = sp.element([1.0, 2.0, 0.5, 1.5])
I = odl.IdentityOperator(sp); M = odl.MatrixOperator(np.array([[1.,2,0,0],[0,1,3,0],[1,1,1,0],[0,0,2,1]]))
sq = odl.PowerOperator(sp, 2)
ops = {'Scaling': odl.ScalingOperator(sp, 3.), 'Identity': I, 'Multiply': odl.MultiplyOperator(g), 'Power2': sq, 'Power3': odl.PowerOperator(sp,3), 'Constant': odl.ConstantOperator(g), 'Zero': odl.ZeroOperator(sp),
       'Matrix': M, 'I-g': I - g, 'M+M': M+M, 'M*M': M*M, '3*M': 3*M, 'sq*2': sq*2, 'g*M': g*M, 'M*g': M*g, 'sq*g': sq*g, 'M+g': M+g, 'sq.pointwise': odl.OperatorPointwiseProduct(sq, M),
       'I - ConstantOp': I - odl.ConstantOperator(g), 'sq*M': sq*M, 'M*sq': M*sq, '(sq+M)': sq+M, '-sq': -sq, 'sq/2': sq/2.0}
for nm, op in ops.items():
    r = alias_check('op '+nm, op, x)
    if r[1]!='OK': res.append(r)
V = sp**2; xv = V.element([[3.0, -0.5, 1.25, -4],[1,2,3,4]])
for nm, op in {'Diagonal': odl.DiagonalOperator(M, sq), 'ProductSpaceOp full': odl.ProductSpaceOperator([[I, M],[M, 2*I]]), 'ProductSpaceOp upper': odl.ProductSpaceOperator([[I, M],[0, 2*I]]), 'ProductSpaceOp lower': odl.ProductSpaceOperator([[I, 0],[M, 2*I]])}.items():
    r = alias_check('op '+nm, op, xv)
    if r[1]!='OK': res.append(r)
dd = odl.uniform_discr(0,1,5); xd = dd.element([1.,4,2,7,3])
for nm, op in {'Laplacian': odl.Laplacian(dd), 'PartialDeriv': odl.PartialDerivative(dd, 0), 'ufunc sin': odl.ufunc_ops.sin(dd), 'Resize same': odl.ResizingOperator(dd, dd)}.items():
    r = alias_check('op '+nm, op, xd)
    if r[1]!='OK': res.append(r)
for r in res: print(r)
print(len(res),'non-OK')

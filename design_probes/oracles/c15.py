import numpy as np, odl, warnings, itertools
warnings.filterwarnings('ignore')
issues={}
def note(k,v): issues.setdefault(k,[]).append(v)
def funcs(ndim, cplx):
    # abstract function: f(x) = 2*x0 - 3*x1 + x0*x1 + 1 (+ 1j*x0 if complex); variants of calling convention
    def val(*xs):
        x0=xs[0]; x1=xs[1] if ndim>1 else 0*xs[0]; x2=xs[2] if ndim>2 else 0*xs[0]
        r = 2*x0 - 3*x1 + x0*x1 + x2 + 1
        return r + (1j*x0 if cplx else 0)
    F={}
    F['native'] = lambda x: val(*x)
    F['vectorize-deco'] = odl.util.vectorize(otypes=[complex if cplx else float])(lambda x: val(*([x] if ndim==1 else x)) if True else None)
    def ip(x, out): out[:] = val(*x)
    F['inplace'] = ip
    def dual(x, out=None):
        if out is None: return val(*x)
        out[:] = val(*x)
    F['dual'] = dual
    return F, val
for ndim in [1,2,3]:
    for cplx in [False, True]:
        for nob in [False, True]:
            shape=(3,4,2)[:ndim]
            sp = odl.uniform_discr([0]*ndim,[1,2,1][:ndim],shape,dtype=complex if cplx else float,nodes_on_bdry=nob)
            F,val = funcs(ndim,cplx)
            mesh = sp.meshgrid; exp = val(*mesh) + np.zeros(shape)
            for nm,f in F.items():
                try:
                    el = sp.element(f)
                    if not np.allclose(el.asarray(), exp): note(('SAMPLE-VALUE',nm,ndim,cplx),(nob,))
                except Exception as e: note(('SAMPLE-EXC',nm,ndim,cplx,type(e).__name__),str(e)[:70])
            # partial coordinate (broadcast) and constant
            for nm,f,ex in [('only x0',lambda x: 2*x[0], 2*mesh[0]+np.zeros(shape)),('const py',lambda x: 3.0, np.full(shape,3.0)),('const np',lambda x: np.float64(3.0), np.full(shape,3.0)),
                            ('last coord', lambda x: x[-1]**2, mesh[-1]**2+np.zeros(shape))]:
                try:
                    el=sp.element(f)
                    if not np.allclose(el.asarray(), ex): note(('BCAST-VALUE',nm,ndim),(nob,cplx))
                except Exception as e: note(('BCAST-EXC',nm,ndim,type(e).__name__),str(e)[:70])
# float32, int dtype
for dt in ['float32','int64']:
    sp=odl.uniform_discr([0,0],[2,3],(2,3),dtype=dt)
    try:
        el=sp.element(lambda x: x[0]*2+x[1])
        ex=sp.meshgrid[0]*2+sp.meshgrid[1]
        if not np.allclose(el.asarray(), ex.astype(dt)): note(('DTYPE-VALUE',dt),(el.asarray(),ex))
    except Exception as e: note(('DTYPE-EXC',dt,type(e).__name__),str(e)[:80])
for k,v in sorted(issues.items(), key=lambda kv:str(kv[0])): print(k,len(v),str(v[:1])[:160])
print('families',len(issues))

import numpy as np, odl, itertools, warnings
warnings.filterwarnings('ignore')
rng = np.random.default_rng(0)
def probes(space, p, x, n=200):
    yield x
    for t in [0.25,0.5,0.75]: yield p + t*(x-p)
    arr = p.asarray() if hasattr(p,'asarray') else None
    for k in range(n):
        d = space.element(rng.choice([-1,-0.5,-0.25,0,0.25,0.5,1], size=space.shape) if not isinstance(space, odl.ProductSpace) else [rng.choice([-1,-0.5,-0.25,0,0.25,0.5,1], size=s.shape) for s in space.spaces])
        for s in [1, 0.1, 0.01]:
            yield p + s*d
def check(name, f, sigma, x):
    sp = f.domain
    try:
        P = f.proximal(sigma); p = P(x)
    except Exception as e:
        return (name, 'ERR', type(e).__name__, str(e)[:70])
    F = lambda z: f(z) + (z-x).norm()**2/(2*sigma)
    try: Fp = F(p)
    except Exception as e: return (name,'ERRVAL',type(e).__name__,str(e)[:60])
    if not np.isfinite(Fp): return (name, 'INF', Fp)
    worst = 0; wz=None
    for z in probes(sp, p, x):
        try: Fz = F(z)
        except Exception: continue
        if Fz < Fp - 1e-9*max(1,abs(Fp)) and Fp-Fz > worst: worst = Fp-Fz; wz=z
    return (name, 'OK' if worst==0 else 'FAIL', worst, None if wz is None else (p, wz))
res=[]
spaces = {'rn3': odl.rn(3), 'rn3w': odl.rn(3, weighting=2.0), 'd3': odl.uniform_discr(0, 6, 3), 'd3s': odl.uniform_discr(0, 0.75, 3)}
S = odl.solvers
for snm, sp in spaces.items():
    x = sp.element([3.0, -0.5, 1.25]); g = sp.element([1.0, 2.0, 0.5])
    fs = {'L1': S.L1Norm(sp), 'L2': S.L2Norm(sp), 'L2sq': S.L2NormSquared(sp), 'Linf': S.LpNorm(sp, np.inf),
          'IndLinf': S.IndicatorLpUnitBall(sp, np.inf), 'IndL2': S.IndicatorLpUnitBall(sp, 2), 'IndL1': S.IndicatorLpUnitBall(sp, 1),
          'Box': S.IndicatorBox(sp, -1, 2), 'Nonneg': S.IndicatorNonnegativity(sp), 'Zero': S.IndicatorZero(sp),
          'Huber': S.Huber(sp, 0.5), 'Simplex': S.IndicatorSimplex(sp, 2), 'SumC': S.IndicatorSumConstraint(sp, 2),
          'KL': S.KullbackLeibler(sp, prior=g), 'KLcc': S.KullbackLeibler(sp, prior=g).convex_conj,
          'KLCE': S.KullbackLeiblerCrossEntropy(sp, prior=g), 'KLCEcc': S.KullbackLeiblerCrossEntropy(sp, prior=g).convex_conj,
          'QuadForm': S.QuadraticForm(operator=odl.ScalingOperator(sp, 2.0), vector=g),
          'Const': S.ConstantFunctional(sp, 3), 'L1 transl': S.L1Norm(sp).translated(g), '3*L1': 3*S.L1Norm(sp), 'L1*2': S.L1Norm(sp)*2,
          'L2 transl*2': (S.L2Norm(sp).translated(g))*2.0, 'L1+quad': S.FunctionalQuadraticPerturb(S.L1Norm(sp), quadratic_coeff=0.5, linear_term=g),
          'L2sq cc': S.L2NormSquared(sp).convex_conj, 'L1 cc': S.L1Norm(sp).convex_conj, 'L2 cc': S.L2Norm(sp).convex_conj, 'Huber cc': S.Huber(sp,0.5).convex_conj,
          'L1+3': S.L1Norm(sp)+3, 'Moreau L1': S.MoreauEnvelope(S.L1Norm(sp), sigma=0.5), 'Bregman L2sq': S.L2NormSquared(sp).bregman(g, 2*g),
          'L1*vec': S.L1Norm(sp)*g}
    for fnm, f in fs.items():
        for sigma in [0.5, 2.0]:
            xx = x if 'KL' not in fnm else sp.element([3.0, 0.5, 1.25])
            r = check(f'{fnm} {snm} s={sigma}', f, sigma, xx)
            if r[1] != 'OK': res.append(r)
# vector fields
d = odl.uniform_discr(0, 2, 2); pw = d**2; pwb = odl.uniform_discr(0,4,2)**2
for snm, V in [('pw', pw), ('pw cv2', pwb)]:
    x = V.element([[3., -0.5],[4., 0.25]])
    fs = {'GroupL1': S.GroupL1Norm(V), 'GroupL1 p1': S.GroupL1Norm(V, 1), 'IndGroupL1 2': S.IndicatorGroupL1UnitBall(V, 2), 'IndGroupL1 inf': S.IndicatorGroupL1UnitBall(V, np.inf),
          'Huber vf': S.Huber(V, 0.5), 'L1 pspace': S.L1Norm(V), 'L2 pspace': S.L2Norm(V), 'SepSum': S.SeparableSum(S.L1Norm(d), S.L2NormSquared(d)),
          'SepSum sig': S.SeparableSum(S.L1Norm(d), S.L2Norm(d))}
    for fnm, f in fs.items():
        for sigma in [0.5, 2.0]:
            r = check(f'{fnm} {snm} s={sigma}', f, sigma, x)
            if r[1] != 'OK': res.append(r)
# nuclear
M = odl.ProductSpace(odl.ProductSpace(odl.rn(1), 2), 2)
xm = M.element([[[3.],[1.]],[[0.5],[2.]]])
for e in [1,2,np.inf]:
    r = check(f'Nuclear sv_exp={e}', S.NuclearNorm(M, singular_vector_exp=e), 0.5, xm)
    if r[1]!='OK': res.append(r)
for r in res: print(r[:3])
print(len(res), 'non-OK')

import numpy as np, odl, warnings, itertools, inspect
warnings.filterwarnings('ignore'); np.seterr(all='ignore')
S=odl.solvers; P=odl.solvers.nonsmooth.proximal_operators
issues={}
def note(k,v): issues.setdefault(k,[]).append(v)
def arr_of(e):
    if isinstance(e, odl.space.pspace.ProductSpaceElement): return np.concatenate([arr_of(p).ravel() for p in e])
    if hasattr(e,'asarray'): return np.asarray(e.asarray()).ravel()
    return np.atleast_1d(np.asarray(e))
def fill_nan(e):
    if isinstance(e, odl.space.pspace.ProductSpaceElement):
        for p in e: fill_nan(p)
    else:
        a=e.asarray()
        if a.dtype.kind in 'fc': a[...] = np.nan
        elif a.dtype.kind in 'iu': a[...] = 77
def sample(space, k=0):
    if isinstance(space, odl.set.sets.Field): return space.element([1.5, -0.75][k%2] + (0.5j if space==odl.ComplexNumbers() else 0))
    if isinstance(space, odl.ProductSpace): return space.element([sample(s,k+i) for i,s in enumerate(space.spaces)])
    base=(np.arange(space.size).reshape(space.shape)*0.37+0.4+0.1*k)%1.3+0.2
    if space.is_complex: base=base+1j*(base[::-1] if base.ndim==1 else base.T.reshape(base.shape) if base.shape[0]==base.shape[-1] else base*0.5)
    return space.element(base.astype(space.dtype))
def proto(name, op):
    try:
        x=sample(op.domain); xb=arr_of(x).tobytes()
        y=op(x)
        if y not in op.range: note(('NOT-IN-RANGE',type(op).__name__),name)
        if arr_of(x).tobytes()!=xb: note(('X-MODIFIED-OOP',type(op).__name__),name)
        if isinstance(op.range, odl.set.sets.Field): return
        ya=arr_of(y).copy()
        for fillk in [0,1]:
            o=op.range.element(); 
            if fillk==0: fill_nan(o)
            else: o.assign(sample(op.range,3)) if not np.issubdtype(arr_of(o).dtype,np.integer) else None
            x2=sample(op.domain); r=op(x2,out=o)
            if r is not o: note(('RET-NOT-OUT',type(op).__name__),name)
            oa=arr_of(o)
            scale=max(1,np.nanmax(np.abs(ya)) if ya.size else 1)
            if not np.allclose(oa,ya,rtol=1e-9,atol=1e-9*scale,equal_nan=True): note(('INPLACE-DIFFERS',type(op).__name__,fillk),name)
            if arr_of(x2).tobytes()!=xb: note(('X-MODIFIED-IP',type(op).__name__),name)
    except NotImplementedError as e: note(('NOTIMPL',type(op).__name__),name)
    except Exception as e: note(('EXC',type(op).__name__,type(e).__name__),(name,str(e)[:70]))
ops={}
rn3=odl.rn(3); cn3=odl.cn(3); d4=odl.uniform_discr(0,2,4); d23=odl.uniform_discr([0,0],[1,2],(2,3)); d4c=odl.uniform_discr(0,2,4,dtype=complex)
for nm,sp in {'rn3':rn3,'cn3':cn3,'d4':d4,'d23':d23}.items():
    v=sample(sp,1)
    ops.update({f'Scaling {nm}':odl.ScalingOperator(sp,2.0),f'Identity {nm}':odl.IdentityOperator(sp),f'Multiply {nm}':odl.MultiplyOperator(v),f'Multiply field {nm}':odl.MultiplyOperator(v,domain=sp.field,range=sp),
        f'Power2 {nm}':odl.PowerOperator(sp,2),f'Power1.5 {nm}':odl.PowerOperator(sp,1.5) if sp.is_real else odl.PowerOperator(sp,3),f'Inner {nm}':odl.InnerProductOperator(v),f'Norm {nm}':odl.NormOperator(sp),f'Dist {nm}':odl.DistOperator(v),
        f'Constant {nm}':odl.ConstantOperator(v),f'Zero {nm}':odl.ZeroOperator(sp),f'LinComb {nm}':odl.LinCombOperator(sp,2.0,-1.0)})
    if sp.is_complex: ops.update({f'Real {nm}':odl.RealPart(sp),f'Imag {nm}':odl.ImagPart(sp),f'Modulus {nm}':odl.ComplexModulus(sp),f'ModulusSq {nm}':odl.ComplexModulusSquared(sp)})
    else: ops.update({f'Embed {nm}':odl.ComplexEmbedding(sp),f'Real {nm}':odl.RealPart(sp),f'Imag {nm}':odl.ImagPart(sp)})
    for un in ['sin','exp','absolute','sign','sqrt','square','log','negative','conj','arctan']:
        try: ops[f'ufunc {un} {nm}']=getattr(odl.ufunc_ops,un)(sp)
        except Exception as e: pass
for un in ['add','multiply','maximum','arctan2','power']:
    try: ops[f'ufunc2 {un}']=getattr(odl.ufunc_ops,un)(rn3)
    except Exception as e: note(('UFUNC2-CONSTRUCT',un),str(e)[:60])
M=np.array([[1.,2,0],[0,1,3]])
ops.update({'Matrix':odl.MatrixOperator(M),'Matrix axis':odl.MatrixOperator(np.array([[1.,2],[0,1],[3,1]]),domain=odl.rn((2,2)),axis=1),'Sampling':odl.SamplingOperator(d23,[[0,1,1],[0,1,0]]),
            'WSumSampling':odl.WeightedSumSamplingOperator(d23,[[0,1,1],[0,1,0]]),'Flatten':odl.FlatteningOperator(d23),'Flatten.inv':odl.FlatteningOperator(d23).inverse})
pw=d23**2; vf=sample(pw,2)
ops.update({'PwNorm':odl.PointwiseNorm(pw),'PwNorm1':odl.PointwiseNorm(pw,1),'PwNorminf':odl.PointwiseNorm(pw,np.inf),'PwNorm w':odl.PointwiseNorm(pw,2,weighting=[1,3]),'PwInner':odl.PointwiseInner(pw,vf),'PwInnerAdj':odl.PointwiseInner(pw,vf).adjoint,'PwSum':odl.PointwiseSum(pw)})
for sp_nm,sp in {'d4':d4,'d23':d23,'d4c':d4c}.items():
    for pad in ['constant','symmetric','periodic','order0','order1']:
        ops[f'PartialDeriv {sp_nm} {pad}']=odl.PartialDerivative(sp,0,pad_mode=pad); ops[f'Gradient {sp_nm} {pad}']=odl.Gradient(sp,pad_mode=pad); ops[f'Divergence {sp_nm} {pad}']=odl.Divergence(range=sp,pad_mode=pad)
        if pad!='order1': ops[f'Laplacian {sp_nm} {pad}']=odl.Laplacian(sp,pad_mode=pad)
        ops[f'Resize {sp_nm} {pad}']=odl.ResizingOperator(sp,ran_shp=[n+2 for n in sp.shape],pad_mode=pad); ops[f'Resize.adj {sp_nm} {pad}']=ops[f'Resize {sp_nm} {pad}'].adjoint
    ops[f'PartialDeriv {sp_nm} const1']=odl.PartialDerivative(sp,0,pad_mode='constant',pad_const=1)
    ops[f'Resample {sp_nm}']=odl.Resampling(sp, odl.uniform_discr(sp.min_pt,sp.max_pt,[2*n for n in sp.shape],dtype=sp.dtype),interp='linear')
I=odl.IdentityOperator(rn3); M3=odl.MatrixOperator(np.array([[1.,2,0],[0,1,3],[1,1,1]])); sq=odl.PowerOperator(rn3,2); v=sample(rn3,1)
ops.update({'PSOp':odl.ProductSpaceOperator([[I,M3],[0,2*I]]),'CompProj':odl.ComponentProjection(rn3**2,1),'CompProjAdj':odl.ComponentProjection(rn3**2,1).adjoint,'Broadcast':odl.BroadcastOperator(I,sq),'Reduction':odl.ReductionOperator(I,sq),'Diagonal':odl.DiagonalOperator(M3,sq),
    'Sum':M3+sq,'VecSum':sq+v,'Comp':sq*M3,'PwProd':odl.OperatorPointwiseProduct(sq,M3),'LScal':3*sq,'RScal':sq*3,'LVec':v*sq,'RVec':sq*v,'FLVec':v*S.L2NormSquared(rn3)})
for nm,sp in {'d4':d4,'d4c':d4c,'d23':d23}.items():
    for impl in ['numpy','pyfftw']:
        for hc in ([False,True] if sp.is_real else [False]):
            try:
                ops[f'DFT {nm} {impl} hc={hc}']=odl.trafos.DiscreteFourierTransform(sp,impl=impl,halfcomplex=hc); ops[f'DFTinv {nm} {impl} hc={hc}']=ops[f'DFT {nm} {impl} hc={hc}'].inverse
                ops[f'FT {nm} {impl} hc={hc}']=odl.trafos.FourierTransform(sp,impl=impl,halfcomplex=hc); ops[f'FTinv {nm} {impl} hc={hc}']=ops[f'FT {nm} {impl} hc={hc}'].inverse
            except Exception as e: note(('FOURIER-CONSTRUCT',nm,impl,hc),str(e)[:60])
d8=odl.uniform_discr(0,1,8)
for wv in ['haar','db2','bior2.2']:
    for pm in ['constant','periodic','symmetric']:
        try: W=odl.trafos.WaveletTransform(d8,wv,nlevels=2,pad_mode=pm); ops[f'Wavelet {wv} {pm}']=W; ops[f'WaveletInv {wv} {pm}']=W.inverse
        except Exception as e: note(('WAVELET-CONSTRUCT',wv,pm),str(e)[:60])
# functionals + proximals + gradients + conj
for nm,sp in {'rn3':rn3,'d4':d4}.items():
    g=sample(sp,1)
    fs={'L1':S.L1Norm(sp),'L2':S.L2Norm(sp),'Linf':S.LpNorm(sp,np.inf),'L2sq':S.L2NormSquared(sp),'Huber':S.Huber(sp,0.4),'KL':S.KullbackLeibler(sp,g),'KLCE':S.KullbackLeiblerCrossEntropy(sp,g),'Box':S.IndicatorBox(sp,0.3,0.9),
        'IndL2':S.IndicatorLpUnitBall(sp,2),'IndLinf':S.IndicatorLpUnitBall(sp,np.inf),'IndL1':S.IndicatorLpUnitBall(sp,1),'Zero':S.ZeroFunctional(sp),'Const':S.ConstantFunctional(sp,2.),'IndZero':S.IndicatorZero(sp),'Simplex':S.IndicatorSimplex(sp),
        'Quad':S.QuadraticForm(operator=odl.ScalingOperator(sp,2.),vector=g),'Moreau':S.MoreauEnvelope(S.L1Norm(sp)),'Rosen':S.RosenbrockFunctional(rn3) if nm=='rn3' else S.L1Norm(sp)}
    for fn,f in fs.items():
        ops[f'F {fn} {nm}']=f
        for dn,mk in {'transl':lambda f:f.translated(g),'3*':lambda f:3*f,'*2':lambda f:f*2.0,'+L2sq':lambda f:f+S.L2NormSquared(sp),'*g':lambda f:f*g,'quadpert':lambda f:S.FunctionalQuadraticPerturb(f,0.5,g,1.),'cc':lambda f:f.convex_conj}.items():
            try: ops[f'F {fn} {dn} {nm}']=mk(f)
            except Exception as e: pass
        for acc,mk in {'prox':lambda f:f.proximal(0.5),'grad':lambda f:f.gradient,'cc.prox':lambda f:f.convex_conj.proximal(0.5),'cc.grad':lambda f:f.convex_conj.gradient,'deriv':lambda f:f.derivative(sample(sp,2))}.items():
            try: ops[f'F {fn}.{acc} {nm}']=mk(f)
            except Exception: pass
print('instances',len(ops),'classes',len({type(o).__name__ for o in ops.values()}))
for nm,op in ops.items(): proto(nm,op)
for k,v in sorted(issues.items(), key=lambda kv:str(kv[0])): print(k,len(v),str(v[:2])[:230])
print('families',len(issues))

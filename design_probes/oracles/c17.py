import numpy as np, odl, warnings, itertools
warnings.filterwarnings('ignore')
np.seterr(all='ignore')
issues={}
def note(k, v): issues.setdefault(k,[]).append(v)
ufs = [getattr(np,n) for n in dir(np) if isinstance(getattr(np,n), np.ufunc) and getattr(np,n).signature is None]
spaces = {'rn(2,3)': odl.rn((2,3)), 'rn f32': odl.rn((2,3),dtype='float32'), 'cn': odl.cn((2,3)), 'int': odl.tensor_space((2,3),dtype=int), 'rn w': odl.rn((2,3),weighting=2.0),
          'discr': odl.uniform_discr([0,0],[1,1],(2,3)), 'discr c': odl.uniform_discr([0,0],[1,1],(2,3),dtype=complex)}
def same(a, b):
    a=np.asarray(a); b=np.asarray(b)
    return a.shape==b.shape and a.dtype==b.dtype and np.array_equal(a,b,equal_nan=True) if a.dtype.kind in 'fc' else (a.shape==b.shape and a.dtype==b.dtype and np.array_equal(a,b))
for snm, sp in spaces.items():
    base = (np.arange(6).reshape(2,3)+1.0)
    if sp.is_complex: base = base + 1j*(base%3)
    x = sp.element(base.astype(sp.dtype)); y = sp.element((base[::-1]*0.5+1).astype(sp.dtype))
    for uf in ufs:
        args = (x,) if uf.nin==1 else (x,y)
        raw = tuple(a.asarray() for a in args)
        try: ref = uf(*raw)
        except (TypeError, ValueError): continue
        # call
        try:
            res = uf(*args)
            rs = res if isinstance(res, tuple) else (res,); rf = ref if isinstance(ref, tuple) else (ref,)
            for r, f in zip(rs, rf):
                if not hasattr(r,'space'): note(('NOT-ELEMENT', snm), uf.__name__); continue
                if type(r.space).__name__ != type(sp).__name__: note(('KIND', snm), (uf.__name__, type(r.space).__name__))
                if not same(r.asarray(), f): note(('VALUE', snm), uf.__name__)
        except Exception as e: note(('CALL-EXC', snm, type(e).__name__), uf.__name__)
        # mixed with raw array both orders
        if uf.nin==2:
            for aa in [(x, raw[1]), (raw[0], y)]:
                try:
                    r = uf(*aa)
                    if not hasattr(r,'space') or not same(r.asarray(), ref): note(('MIXED', snm), uf.__name__)
                except Exception as e: note(('MIXED-EXC', snm, type(e).__name__), uf.__name__)
        # out= element / ndarray
        if uf.nout==1:
            try:
                out_sp = sp if np.asarray(ref).dtype==sp.dtype else sp.astype(np.asarray(ref).dtype)
                o = out_sp.element(); r = uf(*args, out=o)
                if r is not o or not same(o.asarray(), ref): note(('OUT-ELEM', snm), uf.__name__)
                oa = np.empty_like(np.asarray(ref)); r = uf(*args, out=oa)
                if r is not oa or not same(oa, ref): note(('OUT-NDARRAY', snm), uf.__name__)
                if hasattr(o,'tensor'):
                    ot = out_sp.tspace.element(); r = uf(*args, out=ot)
                    if r is not ot or not same(ot.asarray(), ref): note(('OUT-TENSOR', snm), uf.__name__)
            except Exception as e: note(('OUT-EXC', snm, type(e).__name__), uf.__name__)
        # legacy
        try:
            leg = getattr(x.ufuncs, uf.__name__, None)
            if leg is not None:
                r = leg() if uf.nin==1 else leg(y)
                rs = r if isinstance(r, tuple) else (r,); rf = ref if isinstance(ref, tuple) else (ref,)
                for rr, f in zip(rs, rf):
                    if not same(rr.asarray(), f): note(('LEGACY', snm), uf.__name__)
        except Exception as e: note(('LEGACY-EXC', snm, type(e).__name__), uf.__name__)
        # methods
        if uf.nin==2 and uf.nout==1:
            for meth, kws in [('reduce',{}),('reduce',{'axis':1}),('reduce',{'axis':(0,1)}),('reduce',{'axis':0,'keepdims':True}),('accumulate',{}),('accumulate',{'axis':1}),('outer',{})]:
                try:
                    if meth=='outer': rref = uf.outer(raw[0],raw[1])
                    else: rref = getattr(uf,meth)(raw[0], **kws)
                except Exception: continue
                try:
                    r = uf.outer(x,y) if meth=='outer' else getattr(uf,meth)(x, **kws)
                    if np.isscalar(rref) or np.ndim(rref)==0:
                        if not (np.isscalar(r) or np.ndim(r)==0) or not same(np.asarray(r), np.asarray(rref)): note((meth.upper()+'-SCALAR', snm, str(kws)), uf.__name__)
                    else:
                        if not hasattr(r,'space'): note((meth.upper()+'-NOTELEM', snm, str(kws)), uf.__name__)
                        elif not same(r.asarray(), rref): note((meth.upper()+'-VALUE', snm, str(kws)), uf.__name__)
                except Exception as e: note((meth.upper()+'-EXC', snm, str(kws), type(e).__name__), uf.__name__)
for k,v in sorted(issues.items(), key=lambda kv: str(kv[0])): print(k, len(v), v[:6])
print('families', len(issues))
# memory sharing
arr = np.zeros((2,3)); print('shares', np.shares_memory(arr, odl.rn((2,3)).element(arr).asarray()), np.shares_memory(arr, odl.uniform_discr([0,0],[1,1],(2,3)).element(arr).asarray()))

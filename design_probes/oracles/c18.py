import numpy as np, odl, warnings, itertools
warnings.filterwarnings('ignore')
issues=[]
def mat(op):
    dom, ran = op.domain, op.range
    cols=[]
    basis=[]
    for idx in np.ndindex(dom.shape):
        for val in ([1.0,1j] if dom.is_complex else [1.0]):
            e = dom.zero(); e[idx]=val; cols.append(np.asarray(op(e)).ravel().copy())
    return np.array(cols).T
for shape in [(1,),(2,),(3,),(4,),(5,),(6,),(2,3),(3,4),(4,4),(3,3),(2,3,2)]:
    nd=len(shape)
    for axes in [None]+[ax for r in range(1,nd+1) for ax in itertools.combinations(range(nd),r)]:
        for dt in ['float64','complex128','float32','complex64']:
            for hc in ([False,True] if 'float' in dt else [False]):
                for sign in (['-'] if hc else ['-','+']):
                    sp = odl.uniform_discr([0]*nd,[1]*nd,shape,dtype=dt)
                    try:
                        ops = {impl: odl.trafos.DiscreteFourierTransform(sp, axes=axes, sign=sign, halfcomplex=hc, impl=impl) for impl in ['numpy','pyfftw']}
                    except Exception as e: issues.append(('CONSTRUCT',shape,axes,dt,hc,sign,str(e)[:60])); continue
                    x = sp.element((np.arange(np.prod(shape)).reshape(shape)%5-2.0) + (1j*(np.arange(np.prod(shape)).reshape(shape)%3) if 'complex' in dt else 0))
                    ax = tuple(range(nd)) if axes is None else axes
                    xa = x.asarray()
                    if hc: ref = np.fft.rfftn(xa, axes=ax)
                    elif sign=='-': ref = np.fft.fftn(xa, axes=ax)
                    else: ref = np.fft.ifftn(xa, axes=ax)*np.prod([shape[a] for a in ax])
                    tol = 1e-4 if '32' in dt or dt=='complex64' else 1e-10
                    for impl,op in ops.items():
                        try:
                            xc = x.copy(); y = op(xc)
                            if not np.allclose(y.asarray(), ref, atol=tol*max(1,np.abs(ref).max())): issues.append(('VALUE',impl,shape,axes,dt,hc,sign))
                            if not np.array_equal(xc.asarray(), x.asarray()): issues.append(('INPUT-MODIFIED',impl,shape,axes,dt,hc,sign))
                            o = op.range.element(); o.asarray()[...] = np.nan; xc=x.copy(); r = op(xc, out=o)
                            if r is not o or not np.allclose(o.asarray(), ref, atol=tol*max(1,np.abs(ref).max())): issues.append(('INPLACE',impl,shape,axes,dt,hc,sign))
                            if not np.array_equal(xc.asarray(), x.asarray()): issues.append(('INPUT-MODIFIED-IP',impl,shape,axes,dt,hc,sign))
                            # second call (plan reuse)
                            y2 = op(x.copy()); 
                            if not np.allclose(y2.asarray(), ref, atol=tol*max(1,np.abs(ref).max())): issues.append(('SECOND-CALL',impl,shape,axes,dt,hc,sign))
                            inv = op.inverse; back = inv(y)
                            if not np.allclose(back.asarray(), xa, atol=tol*max(1,np.abs(xa).max())): issues.append(('INVERSE',impl,shape,axes,dt,hc,sign, np.abs(back.asarray()-xa).max()))
                        except Exception as e: issues.append(('EXC',impl,shape,axes,dt,hc,sign,type(e).__name__,str(e)[:60]))
kinds={}
for i in issues: kinds.setdefault(i[0],[]).append(i[1:])
for k,v in kinds.items(): print('==',k,len(v)); [print('   ',x) for x in v[:10]]
# FT round trip
issues=[]
for shape in [(4,),(5,),(6,),(3,4),(4,5)]:
    nd=len(shape)
    for dt in ['float64','complex128']:
        for hc in ([False,True] if dt=='float64' else [False]):
            for shift in itertools.product([True,False],repeat=nd):
                for sign in (['-'] if hc else ['-','+']):
                    for impl in ['numpy','pyfftw']:
                        sp = odl.uniform_discr([-1]*nd,[1]*nd,shape,dtype=dt)
                        try:
                            FT = odl.trafos.FourierTransform(sp, halfcomplex=hc, shift=shift, sign=sign, impl=impl)
                            x = sp.element((np.arange(np.prod(shape)).reshape(shape)%5-2.0) + (1j*(np.arange(np.prod(shape)).reshape(shape)%3) if 'complex' in dt else 0))
                            y = FT(x); back = FT.inverse(y)
                            if not np.allclose(back.asarray(), x.asarray(), atol=1e-10): issues.append(('FT-INVERSE',shape,dt,hc,shift,sign,impl, np.abs(back.asarray()-x.asarray()).max()))
                        except Exception as e: issues.append(('FT-EXC',shape,dt,hc,shift,sign,impl,type(e).__name__,str(e)[:60]))
kinds={}
for i in issues: kinds.setdefault(i[0],[]).append(i[1:])
for k,v in kinds.items(): print('==',k,len(v)); [print('   ',x) for x in v[:12]]
